#!/bin/sh
# usage: tools/seedsweep.sh <out file> <seed dir name>...   -- e.g. tools/seedsweep.sh /tmp/m/sweep.out C01-f C02-a
# For each seeded change: a scratch worktree of /repo with the change applied (never /repo itself), the check(s) named in
# its meta.json "caught_by" run against it from a COPY of /verif (VERIF_REPO; /verif/evidence is not touched), one line
# per seed: CAUGHT / MISSED.
OUT=$1; shift
W=$(mktemp -d /tmp/sweepwt.XXXXXX)
V=$(mktemp -d /tmp/sweepverif.XXXXXX)
git -C /repo worktree add -q --detach "$W" HEAD || exit 2
rsync -a --exclude .git --exclude replays /verif/ "$V/"
trap 'git -C /repo worktree remove --force "$W" >/dev/null 2>&1; rm -rf "$W" "$V"' EXIT INT TERM
for s in "$@"; do
  d=/verif/seeded/$s
  git -C "$W" apply "$d/patch.diff" || { echo "$s PATCH-DOES-NOT-APPLY" >> "$OUT"; continue; }
  checks=$(python3 -c "import json,re,sys; print(' '.join(dict.fromkeys(re.findall(r'C\d\d', str(json.load(open('$d/meta.json')).get('caught_by') or '$s'[:3])))))")
  verdict=MISSED
  for c in $checks; do
    out=$(cd "$V" && VERIF_REPO="$W" ./check $c 2>&1); rc=$?
    if [ $rc -eq 1 ] && echo "$out" | grep -q '^VIOLATION'; then verdict="CAUGHT by $c"; break; fi
    [ $rc -eq 2 ] && verdict="MACHINERY in $c: $(echo "$out" | grep -E '^MACHINERY' | head -1 | cut -c1-200)"
  done
  echo "$s $verdict" >> "$OUT"
  git -C "$W" checkout -q -- . ; git -C "$W" clean -fdq -- trashcli
  find "$W" -name __pycache__ -type d -prune -exec rm -rf {} + 2>/dev/null
done

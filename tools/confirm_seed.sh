#!/bin/sh
# usage: tools/confirm_seed.sh <seed dir>  -- confirm a seeded change in a scratch worktree:
#   the existing tests still pass with it, its demonstration fails with it and passes without it
S=$1
W=$(mktemp -d /tmp/seedwt.XXXXXX)
git -C /repo worktree add -q --detach "$W" HEAD || exit 2
trap 'git -C /repo worktree remove --force "$W" >/dev/null 2>&1; rm -rf "$W"' EXIT INT TERM
/venv/bin/python "$S/demo.py" "$W" >/dev/null 2>&1; clean=$?
git -C "$W" apply "$S/patch.diff" || { echo "patch does not apply"; exit 2; }
/verif/tools/baseline.sh "$W" | tail -1
tests=$?
/venv/bin/python "$S/demo.py" "$W" >/dev/null 2>&1; seeded=$?
echo "$(basename $S): demo on clean tree exit=$clean, on changed tree exit=$seeded"
[ $clean -eq 0 ] && [ $seeded -ne 0 ]

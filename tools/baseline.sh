#!/bin/sh
# Run the repository's test suite (hook guard off) and compare with BASELINE.json's stable_pass list.
# usage: tools/baseline.sh [repo_dir]
REPO=${1:-/repo}
OUT=$(mktemp /tmp/junit.XXXXXX.xml)
cd "$REPO" && env -u TRASHCLI_VERIF_SHIM /venv/bin/python -m pytest -ra -q -p no:cacheprovider --timeout=900 --continue-on-collection-errors --junitxml="$OUT" >/tmp/baseline.log 2>&1
/venv/bin/python - "$OUT" <<'PY'
import json, sys, xml.etree.ElementTree as ET
want = set(json.load(open('/root/.vp/BASELINE.json'))['stable_pass'])
passed = set()
for tc in ET.parse(sys.argv[1]).getroot().iter('testcase'):
    if not any(c.tag in ('failure', 'error', 'skipped') for c in tc):
        passed.add('%s::%s' % (tc.get('classname'), tc.get('name')))
missing = sorted(want - passed)
print('stable_pass: %d, passing now: %d, missing: %d' % (len(want), len(want & passed), len(missing)))
for m in missing[:20]:
    print('  MISSING', m)
sys.exit(1 if missing else 0)
PY
rc=$?
rm -f "$OUT"
exit $rc

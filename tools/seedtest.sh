#!/bin/sh
# usage: tools/seedtest.sh <patch.diff> <check id>...   -- apply a seeded change to /repo, run the checks, undo it
P=$1; shift
cd /repo || exit 2
git diff --quiet || { echo "/repo has local changes"; exit 2; }
git apply "$P" || { echo "patch does not apply"; exit 2; }
trap 'git -C /repo checkout -- . ; git -C /repo clean -fdq -- trashcli' EXIT INT TERM
cd /verif
for c in "$@"; do
  echo "=== $c with $P"
  ./check "$c" --tier quick 2>&1 | cut -c1-400 | grep -E "^(VIOLATION|OK|KNOWN|MACHINERY|  )" | head -6
  echo "exit=$?"
done

#!/bin/sh
# Offline sanity check of what the checks need (nothing is built: specs and harness are interpreted).
set -e
command -v java >/dev/null
test -f /opt/veriftools/tla/tla2tools.jar
/venv/bin/python -c "import psutil, six, trashcli" 
test -d /dev/shm || echo "note: /dev/shm missing, sandboxes go to the temp dir"
mkdir -p "$(dirname "$0")/../evidence"
echo setup ok

#!/bin/sh
# run every registered check (quick tier by default) and summarise
TIER=${1:-quick}
cd /verif
for c in C01 C02 C03 C04 C05 C06 C07 C08 C09 C10 C11 C12 C13 C14 C15 C16 C17 C18 C19 C20; do
  s=$(date +%s)
  out=$(./check $c --tier $TIER 2>&1); rc=$?
  e=$(date +%s)
  echo "$c rc=$rc $((e-s))s $(echo "$out" | grep -c '^VIOLATION') violation(s) $(echo "$out" | grep -c '^KNOWN-FINDING') known | $(echo "$out" | grep -E '^(OK|MACHINERY)' | cut -c1-110)"
done

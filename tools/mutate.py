#!/venv/bin/python
"""Development tool (not a registered check): a small mutation campaign against the checks.

For N sampled one-line mutants of the core modules of a scratch worktree of /repo:
  1. the mutant must compile and import;
  2. the repository's own suite is run: a mutant the suite kills is not interesting;
  3. the checks mapped to the mutated file are run against the scratch tree (VERIF_REPO) from a COPY of /verif
     (so that /verif/evidence is not touched); "caught" = some check prints VIOLATION / exits 1.
Result: one JSON line per mutant in the output file, and a summary.  Survivors are the list to look at by hand
(equivalent mutants, behaviour no property talks about, or a gap).

usage: tools/mutate.py <out.jsonl> [N] [seed]
"""
import json
import os
import random
import re
import shutil
import subprocess
import sys
import tempfile

REPO = '/repo'
FILES = {
    'trashcli/put/trasher.py': ['C16', 'C01', 'C18'],
    'trashcli/put/file_trasher.py': ['C01', 'C07'],
    'trashcli/put/janitor.py': ['C01', 'C17', 'C07'],
    'trashcli/put/janitor_tools/info_file_persister.py': ['C04', 'C17', 'C01'],
    'trashcli/put/janitor_tools/put_trash_dir.py': ['C17', 'C05', 'C01'],
    'trashcli/put/janitor_tools/security_check.py': ['C08', 'C07'],
    'trashcli/put/janitor_tools/trash_dir_checker.py': ['C07', 'C16'],
    'trashcli/put/janitor_tools/trash_dir_creator.py': ['C07', 'C04'],
    'trashcli/put/janitor_tools/info_creator.py': ['C03', 'C02'],
    'trashcli/put/trash_directories_finder.py': ['C07', 'C01'],
    'trashcli/put/original_location.py': ['C03', 'C18', 'C01'],
    'trashcli/put/format_trash_info.py': ['C03'],
    'trashcli/put/fs/real_fs.py': ['C05', 'C17', 'C01'],
    'trashcli/put/fs/volume_of_parent.py': ['C07', 'C18'],
    'trashcli/put/core/candidate.py': ['C07'],
    'trashcli/put/dir_maker.py': ['C04', 'C07'],
    'trashcli/put/suffix.py': ['C04'],
    'trashcli/restore/restorer.py': ['C06', 'C02'],
    'trashcli/restore/file_system.py': ['C06', 'C15', 'C02'],
    'trashcli/restore/restore_asking_the_user.py': ['C13'],
    'trashcli/restore/index.py': ['C13'],
    'trashcli/restore/range.py': ['C13'],
    'trashcli/restore/sequences.py': ['C13'],
    'trashcli/restore/single.py': ['C13'],
    'trashcli/restore/sort_method.py': ['C13', 'C19'],
    'trashcli/restore/trashed_file.py': ['C13'],
    'trashcli/restore/trashed_files.py': ['C20', 'C13', 'C19'],
    'trashcli/restore/info_files.py': ['C19', 'C13'],
    'trashcli/restore/trash_directories.py': ['C08', 'C09'],
    'trashcli/empty/emptier.py': ['C10', 'C14', 'C15'],
    'trashcli/empty/delete_according_date.py': ['C10'],
    'trashcli/empty/older_than.py': ['C10'],
    'trashcli/empty/guard.py': ['C14'],
    'trashcli/empty/parse_reply.py': ['C14'],
    'trashcli/empty/user.py': ['C14'],
    'trashcli/empty/is_input_interactive.py': ['C14'],
    'trashcli/empty/existing_file_remover.py': ['C10', 'C11'],
    'trashcli/empty/empty_action.py': ['C14', 'C10'],
    'trashcli/rm/filter.py': ['C12'],
    'trashcli/rm/rm_cmd.py': ['C12'],
    'trashcli/rm/list_trashinfo.py': ['C12', 'C19'],
    'trashcli/rm/cleanable_trashcan.py': ['C12', 'C15'],
    'trashcli/rm/file_remover.py': ['C12', 'C11'],
    'trashcli/lib/trash_dir_reader.py': ['C19', 'C10', 'C09'],
    'trashcli/lib/path_of_backup_copy.py': ['C11', 'C12', 'C10'],
    'trashcli/lib/dir_reader.py': ['C19', 'C09'],
    'trashcli/trash_dirs_scanner.py': ['C08', 'C09'],
    'trashcli/parse_trashinfo/parse_path.py': ['C20', 'C03'],
    'trashcli/parse_trashinfo/parse_trashinfo.py': ['C20', 'C10'],
    'trashcli/parse_trashinfo/parse_deletion_date.py': ['C10', 'C20'],
    'trashcli/parse_trashinfo/maybe_parse_deletion_date.py': ['C09', 'C20'],
    'trashcli/parse_trashinfo/parse_original_location.py': ['C20', 'C02'],
    'trashcli/list/list_trash_action.py': ['C09', 'C19', 'C08'],
    'trashcli/list/trash_dir_selector.py': ['C09', 'C08'],
    'trashcli/fstab/volume_of_impl.py': ['C07', 'C09'],
    'trashcli/fs.py': ['C11', 'C17', 'C08', 'C06'],
}

OPS = [
    (r' == ', ' != '), (r' != ', ' == '), (r' and ', ' or '), (r' or ', ' and '), (r'\bnot ', ''),
    (r' < ', ' <= '), (r' <= ', ' < '), (r' > ', ' >= '), (r' >= ', ' > '),
    (r'\bTrue\b', 'False'), (r'\bFalse\b', 'True'), (r' \+ 1\b', ' + 0'), (r' - 1\b', ' - 0'),
    (r'\blexists\b', 'exists'), (r'\bos\.path\.isdir\b', 'os.path.exists'), (r'\bislink\b', 'isdir'),
    (r'\bstartswith\b', 'endswith'), (r'\brstrip\b', 'strip'), (r'\[0\]', '[-1]'), (r'\[0:', '[1:'),
    (r'\bos\.sep\b', "'x'"), (r"'/'", "'x'"), (r'\bcontinue\b', 'pass'), (r'\bbreak\b', 'pass'),
    (r'\bis None\b', 'is not None'), (r'\bis not None\b', 'is None'), (r'\bsorted\(', 'list('),
    (r'\bO_EXCL\b', 'O_CREAT'), (r'\bERRNO\b', 'ERRNO'), (r'errno\.EEXIST', 'errno.ENOENT'), (r'errno\.EXDEV', 'errno.EBUSY'),
    (r'0o1000', '0o2000'), (r'S_ISVTX', 'S_ISGID'), (r'0o700', '0o755'),
    ('DELETE_STATEMENT', None),
]


def candidates(path):
    src = open(os.path.join(REPO, path)).read().split('\n')
    out = []
    for i, line in enumerate(src):
        st = line.strip()
        if not st or st.startswith('#') or st.startswith(('import ', 'from ', 'def ', 'class ', '@', '"""', "'''")) or 'type:' in line:
            continue
        for k, (pat, rep) in enumerate(OPS):
            if pat == 'DELETE_STATEMENT':
                if re.match(r'^\s+(self\.[\w.]+\(.*\)|os\.[\w.]+\(.*\)|[\w.]+\.(remove|unlink|mkdir|makedirs|chmod|append|add)\w*\(.*\))\s*$', line):
                    out.append((path, i, k, line, re.sub(r'\S.*$', 'pass', line)))
                continue
            for m in re.finditer(pat, line):
                new = line[:m.start()] + rep + line[m.end():]
                if new != line:
                    out.append((path, i, k, line, new))
    return out


def main():
    outp = sys.argv[1]
    n = int(sys.argv[2]) if len(sys.argv) > 2 else 60
    seed = int(sys.argv[3]) if len(sys.argv) > 3 else 0
    rnd = random.Random(seed)
    cands = []
    for f in FILES:
        if os.path.exists(os.path.join(REPO, f)):
            cands += candidates(f)
    rnd.shuffle(cands)
    # spread over files
    per = {}
    picked = []
    for c in cands:
        if per.get(c[0], 0) < max(2, n // 15):
            picked.append(c)
            per[c[0]] = per.get(c[0], 0) + 1
        if len(picked) >= n:
            break
    work = tempfile.mkdtemp(prefix='mut-', dir='/tmp')
    wt = os.path.join(work, 'wt')
    vcopy = os.path.join(work, 'verif')
    subprocess.check_call(['git', '-C', REPO, 'worktree', 'add', '-q', '--detach', wt, 'HEAD'])
    subprocess.check_call(['rsync', '-a', '--exclude', '.git', '--exclude', 'replays', '--exclude', 'seeded', '/verif/', vcopy + '/'])
    stats = {'total': 0, 'not_compiling': 0, 'killed_by_suite': 0, 'caught': 0, 'survived': 0}
    try:
        with open(outp, 'a') as out:
            for path, i, k, old, new in picked:
                stats['total'] += 1
                full = os.path.join(wt, path)
                src = open(full).read().split('\n')
                assert src[i] == old
                src[i] = new
                open(full, 'w').write('\n'.join(src))
                rec = {'file': path, 'line': i + 1, 'old': old.strip(), 'new': new.strip()}
                try:
                    r = subprocess.run(['/venv/bin/python', '-c', 'import sys; sys.path.insert(0, %r); import py_compile; py_compile.compile(%r, doraise=True)' % (wt, full)],
                                       stdout=subprocess.PIPE, stderr=subprocess.STDOUT)
                    if r.returncode != 0:
                        rec['verdict'] = 'not_compiling'
                        stats['not_compiling'] += 1
                    else:
                        r = subprocess.run(['/verif/tools/baseline.sh', wt], stdout=subprocess.PIPE, stderr=subprocess.STDOUT)
                        if r.returncode != 0:
                            rec['verdict'] = 'killed_by_suite'
                            stats['killed_by_suite'] += 1
                        else:
                            caught_by = []
                            for c in FILES[path]:
                                rr = subprocess.run(['./check', c, '--tier', 'quick'], cwd=vcopy, env=dict(os.environ, VERIF_REPO=wt),
                                                    stdout=subprocess.PIPE, stderr=subprocess.STDOUT)
                                txt = rr.stdout.decode('utf-8', 'replace')
                                if rr.returncode == 1 or 'VIOLATION' in txt:
                                    first = [l for l in txt.split('\n') if l.startswith('  ')][:1]
                                    caught_by.append([c, (first or [''])[0][:200]])
                                    break
                                if rr.returncode == 2:
                                    caught_by.append([c, 'MACHINERY ' + txt[-300:]])
                                    break
                            rec['caught_by'] = caught_by
                            if caught_by:
                                rec['verdict'] = 'caught'
                                stats['caught'] += 1
                            else:
                                rec['verdict'] = 'survived'
                                stats['survived'] += 1
                finally:
                    subprocess.check_call(['git', '-C', wt, 'checkout', '-q', '--', '.'])
                    for root, dirs, files in os.walk(wt):
                        for d in dirs:
                            if d == '__pycache__':
                                shutil.rmtree(os.path.join(root, d), ignore_errors=True)
                out.write(json.dumps(rec) + '\n')
                out.flush()
                print(rec['verdict'], path, i + 1, '|', old.strip()[:60], '->', new.strip()[:60], flush=True)
    finally:
        subprocess.call(['git', '-C', REPO, 'worktree', 'remove', '--force', wt])
        shutil.rmtree(work, ignore_errors=True)
    print(json.dumps(stats))


if __name__ == '__main__':
    main()

#!/venv/bin/python
"""Regenerate MANIFEST.json from the table below (kept in one place so that it stays valid)."""
import json, os

V = os.path.dirname(os.path.dirname(os.path.abspath(__file__)))
props = [json.loads(l) for l in open(os.path.join(V, 'properties.jsonl'))]

TB = ('Trusted: TLC; spec/*.tla; the harness (materialise / project / snapshot, os-level shim emulating mounts, '
      'clock, uid); tmpfs + CPython 3.12 as the judge of POSIX semantics. Exhaustive only within the stated TLC '
      'constants; concretisation pools (names, kinds, spellings, replies, uids, umasks, clocks) are seeded samples.')

CHECKS = {
 'C01': ('cmdspec', 'TLC on Trash.tla + TLC-generated transition tests on the real trash-put',
         'TLC checks Conservation / PutVolumeOK / PutIndependence on spec/Trash.tla and enumerates the put transitions of the configuration lattice (and of trash directories that already hold same-named entries, orphans, strays, junk); every executed edge is a real trash-put on a real file system whose projected post-state (objects recognised by digest of bytes, tree, links, modes, mtimes) must equal the specification post-state, with the operation trace showing no successful mutation outside the trash for a failed argument. Model checking is the right level because the property is a universally quantified frame law over spellings x kinds x layouts.', '6 C01'),
 'C02': ('cmdspec', 'TLC-simulated histories replayed with real commands + TLC trace validation (TrashTrace)',
         'Behaviours of Sim_Trash.tla are replayed step by step with the real trash-put / trash-restore / trash-rm / trash-empty; after every step the projection must equal the behaviour state; observed steps are re-judged by TLC against Trash.tla (TrashTrace). Round trip = identical digest at the identical location.', '6 C02'),
 'C04': ('opspec', 'TLC on PutOps.tla (all interleavings of 2-3 processes) + lock-step schedules of real trash-put processes: every observed state judged by TLC (FsTrace), every operation trace validated by TLC as a behaviour of PutOps (PutOpsTrace)',
         'PutOps.tla is checked exhaustively by TLC (NoOverwrite, UniqueOwnership, InfoBeforePayload, NothingLost, FinalStateIsC01, AllSucceed, PreKept, Termination). Real processes are run under every schedule with up to 2 (thorough: 3, sampled) pre-emptions at operation granularity; the state after every operation is projected and TLC evaluates the same invariants on it; plus 130+ sequential same-named puts. Model checking is the level the schedule quantifier needs.', '6 C04'),
 'C05': ('opspec', 'TLC invariants of PutOps.tla in every reachable state + kill (process exit, and KeyboardInterrupt before / on return) of the real trash-put at every operation, judged by TLC (FsTrace)',
         'InfoBeforePayload and NothingLost are invariants of every reachable state of PutOps.tla; the real trash-put is killed before each of its operations (all of them, incl. the per-file steps of the cross-volume copy + delete) in 18 scenarios (incl. long names and several arguments in one invocation), also by Ctrl-C delivered before and on the return of each operation, and TLC evaluates the invariants on each post-kill on-disk state.', '6 C05'),
 'C17': ('opspec', 'TLC on PutOps.tla with one-shot and persistent faults (safety + Termination) + errno injection at every operation of the real trash-put, judged by TLC (FsTrace)',
         'Faults are actions of PutOps.tla; TLC checks FinalStateIsC01 and Termination with 1-2 one-shot faults and sticky faults. The real trash-put is run with each errno injected at each operation, one-shot and sticky (thorough: 11 errnos); termination within an operation budget and the final state (TLC: FinalStateIsC01, NothingLost, NoOverwrite) are checked. Two known findings.', '6 C17'),
 'C06': ('cmdspec', 'TLC-generated restore transitions over occupied destinations, run on the real trash-restore',
         'TLC enumerates restore edges with the destination free or occupied by each kind, each kind of trashed entry, one- and two-index replies, with and without --overwrite; the real run must end in one of the specification post-states (refusal leaves occupant and entry untouched; overwrite replaces a non-directory); entries written by other implementations (any Path spelling, trailing slashes) with an occupied location are really restored and TLC (FunTrace) judges that nothing moved.', '6 C06'),
 'C07': ('cmdspec', 'TLC enumeration of the configuration lattice + real trash-put with operation trace',
         'ChosenDir of Trash.tla is the decision table; TLC enumerates the lattice and every edge is executed; the entry must land in the prescribed directory, created directories must be 0700, the move must be exactly one rename unless both fallback switches are on.', '6 C07'),
 'C08': ('cmdspec', 'TLC invariant InsecureFrozen + transition tests of all five commands on every .Trash state',
         'InsecureFrozen is checked by TLC on Trash.tla; all five real commands are run on every state of $topdir/.Trash with a populated .Trash/$uid and must leave it as the specification says, trash-list naming the skipped directory; the same with the trash directories of a second user, with and without --all-users (sandboxed password database); one trash-put paused between two arguments while .Trash becomes insecure, both halves judged by TLC (TrashTrace).', '6 C08'),
 'C09': ('cmdspec', 'TLC-simulated histories replayed with real commands, trash-list compared after every step',
         'ListIsBag is a TLC invariant of Trash.tla; simulated histories are replayed with real commands and after every step real trash-list must print exactly the bag of the specification state; observed steps are validated by TLC (TrashTrace).', '6 C09'),
 'C10': ('cmdspec', 'TLC-generated trash-empty transitions at the DAYS boundary on the real command',
         'EmptyApply/Expired of Trash.tla define the purge set; TLC enumerates dates exactly DAYS days ago and one second either side, undated, future, orphans, strays, in three kinds of trash directory; the real trash-empty must remove exactly that set and keep the rest byte-identical. The embedding of the abstract clock into calendar time is proved with TLAPS (spec/DatesProof.tla); calendar observations of the real command are judged by TLC (FunTrace).', '6 C10'),
 'C11': ('cmdspec', 'TLC action property PurgeFrame + transition tests with link payloads and operation-trace frame check',
         'PurgeFrame is checked by TLC; trash-empty and trash-rm are run on trashes whose payloads are links / trees with outside links; everything outside files/ and info/ must be unchanged and the traced mutating operations must all lie inside them.', '6 C11'),
 'C12': ('cmdspec', 'TLC-generated trash-rm transitions on the real command',
         'RmApply/Matches define the removed set; all generated cases (pattern classes x trashes with equal base names in different directories and volumes) are executed with names from a pool containing glob metacharacters; the byte-level matcher is covered by the function layer (Glob.tla); an errno instead of every unlink / rmdir of a payload: TLC (PurgeTrace) evaluates InfoLast on the state trash-rm leaves (payload and info go together).', '6 C12'),
 'C13': ('cmdspec', 'TLC-generated trash-restore transitions (scope x sort x reply) on the real command',
         'IsListing / RestoreApply define the allowed listings and the restored set; TLC prints every allowed (listing, post-state) for a (state, operation) and the observation must be one of them; scope is tested at component boundaries with prefix-sibling names.', '6 C13'),
 'C14': ('cmdspec', 'TLC action property NoConsentNoChange + dry-run / consent transition tests',
         'The dry run must leave the projection unchanged and print exactly the set the specification removes without --dry-run; negative replies (pool incl. empty and end of input, pipe and pty) must change nothing. One known finding (printed path of an absent payload).', '6 C14'),
 'C15': ('opspec', 'TLC on PurgeOps.tla (crash + re-run) + kill of the real restore / empty / rm before every operation, judged by TLC (PurgeTrace) + whole runs validated by TLC as behaviours of PurgeOps (PurgeOpsTrace); the safety invariants also follow from an inductive invariant discharged by Apalache',
         'InfoLast, RestoreNeverLoses, FrameOK, DoneOK and RerunCompletes are checked by TLC on PurgeOps.tla including crashes with re-runs; the real commands are killed before each of their operations, TLC evaluates the invariants on each post-kill state, the command is run again and the completed purge is checked; the sequence of on-disk states after every single operation of an uninterrupted run must be a behaviour of PurgeOps.tla (payload before info, copy before delete).', '6 C15'),
 'C16': ('cmdspec', 'TLC action property PutIndependence + argument-list transition tests',
         'PutIndependence is checked by TLC; lists of 2 and 3 arguments in every order are run; the state must be PutFold\'s, exit 0 iff no failure, stderr names each failed argument.', '6 C16'),
 'C18': ('cmdspec', 'TLC-generated put transitions over link kinds x every spelling, plus simulated round trips',
         'Arguments that are links / dangling links are trashed under every spelling incl. trailing slashes; the payload must be the link itself, targets untouched, one rename; simulated histories restore them.', '6 C18'),
 'C03': ('functions', 'TLC-checked codec laws (TrashInfo.tla) + TLC evaluation of WellFormed / Meaning on bytes written and read back by the real commands',
         'The codec laws are checked exhaustively by TLC over a 16-byte alphabet; real trash-put writes .trashinfo files for random byte-string locations (every byte 1-255 except /, long names, deep paths, all alphabet paths) and TLC evaluates WellFormed on the written bytes; what trash-list / trash-restore / trash-rm show for those files is checked by TLC against Meaning; under a virtual clock that advances with every operation TLC checks that each DeletionDate of a several-argument run lies in the window in which its own argument was handled.', '6 C03'),
 'C20': ('functions', 'four-way differential of the readers on generated foreign .trashinfo contents, judged by TLC against Meaning / Expired / RmMatches',
         'Foreign contents from line templates are planted in every kind of trash directory; the path/date trash-list shows, the path/date trash-restore shows, trash-rm on the exact / one-byte-different path and trash-empty DAYS at the date boundary, and the place where a real trash-restore puts the entry, are observed on the real commands and each observation is judged by TLC evaluating the TLA+ operators on the same bytes. One known finding (relative Path in the home trash).', '6 C20'),
 'C19': ('cmdspec', 'TLC invariant JunkIsolation + transition tests of the four readers with malformed neighbours',
         'JunkIsolation (effect on entries = effect with the malformed ones removed) is a TLC invariant; the four real reading commands are run on every subset of malformed neighbours under a permuted directory order and must reach the specification state; trash-list --size must list every entry that has a payload.', '6 C19'),
}

checks = []
for p in props:
    pid = p['id']
    if pid not in CHECKS:
        continue
    eng, tech, text, ref = CHECKS[pid]
    checks.append({
        'property_id': pid,
        'quick_cmd': './check %s --tier quick' % pid,
        'thorough_cmd': './check %s --tier thorough' % pid,
        'evidence_file': 'evidence/%s.json' % pid,
        'replay_cmd_template': './check %s --replay {path}' % pid,
        'engine': eng,
        'level_claimed': {'category': 'model_checking', 'text': text, 'design_ref': 'DESIGN.md section ' + ref},
        'level_note': TB,
        'technique': tech,
    })
na = [{'property_id': p['id'], 'reason': 'check under construction (specification layer exists in DESIGN.md; not claimed until the check runs)'}
      for p in props if p['id'] not in CHECKS]
m = {
 'version': 1,
 'setup_cmd': './tools/setup.sh',
 'hooks': {'guard': 'TRASHCLI_VERIF_SHIM',
           'enable': 'no source hooks in /repo: ./check starts every real command in a forked child that installs harness/shim.py (os-level wrappers) and sets TRASHCLI_VERIF_SHIM=1',
           'baseline_off_cmd': 'cd /repo && /venv/bin/python -m pytest -ra -q -p no:cacheprovider --timeout=900 --continue-on-collection-errors',
           'source_commits': [], 'add_only': True},
 'engines': [
   {'name': 'cmdspec', 'path': 'spec/Trash.tla', 'serves_properties': sorted(k for k, v in CHECKS.items() if v[0] == 'cmdspec'),
    'kind_free_text': 'command-level TLA+ specification (Trash.tla) checked by TLC; Gen_Trash / Sim_Trash generate transitions and behaviours that harness/tt.py executes with the real commands; TrashTrace.tla lets TLC judge observed steps'},
   {'name': 'opspec', 'path': 'spec/PutOps.tla', 'serves_properties': sorted(k for k, v in CHECKS.items() if v[0] == 'opspec'),
    'kind_free_text': 'operation-level TLA+ specifications (PutOps / PurgeOps) with interleaving, crash and fault actions; harness/shim.py schedules, kills and faults the real processes; FsTrace / PurgeTrace judge every observed state; PutOpsTrace / PutStateTrace / PurgeOpsTrace validate recorded runs as behaviours of the design; PutEmpty covers trash-put next to trash-empty; an inductive invariant of PurgeOps is discharged by Apalache'},
   {'name': 'functions', 'path': 'spec/TrashInfo.tla', 'serves_properties': sorted(k for k, v in CHECKS.items() if v[0] == 'functions'),
    'kind_free_text': 'pure-function TLA+ modules (TrashInfo, Dates, Glob, Indexes) evaluated by TLC on bytes observed from the real commands (FunTrace)'},
 ],
 'checks': checks,
 'not_applicable': na,
 'notes': 'All checks: ./check <ID> [--tier quick|thorough] [--replay file]; VERIF_SEED selects concretisations and samples. known_findings.json lists findings and repairs.',
}
m['engines'] = [e for e in m['engines'] if e['serves_properties']]
json.dump(m, open(os.path.join(V, 'MANIFEST.json'), 'w'), indent=1)
print('checks:', len(checks), 'not_applicable:', len(na))

"""Reusable stages of the checks: TLC model checking of a configuration,
TLC generation + transition tests on the real code, replay of one case."""
from __future__ import annotations

import json
import random
import re

from harness import framework, tlc, tt, world


def cfg_text(init=None, next_=None, spec=None, constants=None, invariants=(), properties=(), constraint='Bound',
             view='View', extra=''):
    lines = []
    if spec:
        lines.append('SPECIFICATION %s' % spec)
    else:
        lines += ['INIT %s' % init, 'NEXT %s' % next_]
    if constants:
        lines.append('CONSTANTS ' + ' '.join('%s = %s' % kv for kv in constants.items()))
    if constraint:
        lines.append('CONSTRAINT %s' % constraint)
    if view:
        lines.append('VIEW %s' % view)
    for i in invariants:
        lines.append('INVARIANT %s' % i)
    for p in properties:
        lines.append('PROPERTY %s' % p)
    lines.append('CHECK_DEADLOCK FALSE')
    if extra:
        lines.append(extra)
    return '\n'.join(lines) + '\n'


def model_check(chk, name, module, text, workers=8, timeout=1500, coverage=False, required_actions=()):
    res = tlc.run_tlc(module, cfg_text=text, workers=workers, timeout=timeout, coverage=coverage)
    chk.add_tlc(name, res, constants=' '.join(l for l in text.split('\n') if l.startswith('CONSTANTS')))
    if res.ok and res.distinct == 0:
        chk.machinery.append('TLC run %s explored no state (vacuous)' % name)
    if coverage and res.ok:
        for a in required_actions:
            if res.coverage.get(a, (0, 0))[1] == 0:
                chk.machinery.append('vacuity: action %s never taken in %s' % (a, name))
    return res


GEN_CAP = 250000      # edges kept in memory per generation stage (about 1.5 GB of Python objects)


def generate(chk, name, init, next_, constants, module='Gen_Trash', workers=8, timeout=1500):
    text = cfg_text(init=init, next_=next_, constants=constants)
    # an edge is [cfg, pre, lab, post]; the alternative outcomes of one case share (cfg, pre, operation)
    res = tlc.run_tlc(module, cfg_text=text, workers=workers, timeout=timeout, thin_cap=GEN_CAP,
                      thin_key=lambda e: [e['cfg'], e['pre'], tt.op_key(e['lab'])])
    chk.add_tlc('gen:' + name, res, constants=' '.join('%s=%s' % kv for kv in constants.items()))
    if res.ok and not res.emitted:
        chk.machinery.append('generation %s produced no transition (vacuous)' % name)
    if res.thinned > 1:
        chk.notes.append('%s: TLC generated more than %d edges; 1 case in %d (chosen by a hash of the case) was kept' % (name, GEN_CAP, res.thinned))
        chk.stage_stats.setdefault('gen:' + name, {'evaluations': 0, 'nontrivial': 0})['all_executed'] = False
    return tt.group_edges(res.emitted) if res.ok else []


DIFF_TAGS = [
    ('live:', 'live'), ('dirs:', 'dirs'), ('tex:', 'tex'), ('items:', 'items'), ('orph:', 'orph'),
    ('strays:', 'strays'), ('junk:', 'junk'), ('exit:', 'exit'), ('listing:', 'listing'),
    ('restore listing', 'rlisting'), ('skipped-directory', 'diag'), ('dry-run', 'dryrun'),
    ('unparsed', 'unparsed'), ('damaged', 'damaged'), ('payload without info', 'orphan-created'),
    ('info without payload', 'stray-created'), ('outside', 'outside'), ('new entry outside', 'outside'),
    ('escape', 'escape'), ('known-deviation dry-run', 'dryrun-absent-payload'), ('created', 'mode'), ('failed argument', 'unnamed-failure'), ('info ', 'badinfo'),
    ('absolute Path', 'badinfo'), ('relative Path', 'badinfo'), ('Path with', 'badinfo'),
    ('pre-existing info', 'info-modified'), ('junk ', 'junk-modified'), ('trash dir', 'tdir-shape'),
    ('unexpected', 'unexpected'), ('move:', 'move'),
]


def diff_tags(diffs):
    tags = []
    for d in diffs:
        for pre, tag in DIFF_TAGS:
            if d.startswith(pre):
                if tag not in tags:
                    tags.append(tag)
                break
        else:
            if 'other' not in tags:
                tags.append('other')
    return '+'.join(sorted(tags))


def op_summary(res):
    lab = res['lab']
    c = lab['cmd']
    run = res.get('run') or {}
    if c == 'put':
        o = lab['opts']
        flags = ''.join(f for f, on in (('f', o['force']), ('i', o['inter'] != 'off'), ('T', o['td'] != 'none'),
                                         ('H', o['hf']), ('E', o['hfenv'])) if on)
        args = ','.join('%s/%s/%s' % (a['class'], sp, oc) for a, sp, oc in
                        zip(lab['args'], run.get('spelled') or ['?'] * len(lab['args']), lab['ocs']))
        return 'put[%s]:%s' % (flags, args)
    if c == 'restore':
        return 'restore:sort=%s:reply=%s:ow=%s:from=%s' % (lab['sort'], lab['reply']['k'], lab['ow'], lab['from']['k'])
    if c == 'empty':
        o = lab['opts']
        return 'empty:days=%s:dry=%s:consent=%s:td=%s' % (o['days'], o['dry'], o['consent'], o['td'] != 'none')
    if c == 'rm':
        return 'rm:%s' % lab['pat']['k']
    if c == 'list':
        return 'list'
    return c


def state_features(g):
    pre = g['pre']
    cfg = g['cfg']
    f = []
    if pre['strays']:
        f.append('strays')
    if pre['orph']:
        f.append('orph')
    if pre['junk']:
        f.append('junk')
    if any(i['date'] == -1 for i in pre['items']):
        f.append('undated')
    ins = [v for v in cfg['mounted'] if cfg['top'][v] in ('nonsticky', 'linksticky', 'linknonsticky', 'file')]
    if ins:
        f.append('insecure')
    return ','.join(f)


def transition_tests(chk, stage, groups, sample=None, per_stratum=2, strat=None, opts_fn=None, key_extra=None,
                     seeds_per_group=1, judge=None):
    """run the groups (all, or a stratified sample) through the real code and record verdicts"""
    rnd = random.Random('%s|%s' % (stage, chk.seed))
    strat = strat or (lambda g: (g['lab']['cmd'], tt.op_key(g['lab'])[:0], g['allowed'][0]['lab'].get('exit'),
                                 json.dumps(g['allowed'][0]['lab'].get('ocs', ''))))
    # TLC prints edges in a worker-dependent order: a canonical order makes the sample a function of the seed alone
    groups = sorted(groups, key=lambda g: json.dumps([g['cfg'], g['pre'], g['lab']], sort_keys=True))
    total = len(groups)
    if sample is not None and total > sample:
        picked = framework.stratified_sample(list(groups), strat, per_stratum, sample, rnd)
    else:
        picked = list(groups)
        if sample is None or total <= sample:
            chk.notes.append('%s: all %d generated cases were executed' % (stage, total))
    jobs = []
    for i, g in enumerate(picked):
        for s in range(seeds_per_group):
            seed = rnd.randrange(1 << 30)
            opts = opts_fn(g, seed) if opts_fn else {}
            jobs.append((g, seed, opts))
    results = tt.run_groups(jobs)
    nviol = 0
    for (g, seed, opts), res in zip(jobs, results):
        summ = op_summary(res)
        if res['status'] == 'machinery':
            chk.machinery.append('%s: %s' % (stage, '; '.join(res['diffs'])[:2000]))
            continue
        chk.traces += 1
        chk.count(stage, 1, key=summ + '|' + state_features(g) + '|' + json.dumps(res.get('names', {}), sort_keys=True)[:80],
                  nontrivial=bool(res.get('nontrivial')))
        if res['status'] == 'ok' and judge is not None:
            extra = judge(g, res)
            if extra:
                res['status'] = 'mismatch'
                res['diffs'] = extra
        if res['status'] == 'mismatch':
            nviol += 1
            key = '%s:%s:%s' % (stage, summ, diff_tags(res['diffs']))
            if key_extra:
                key += ':' + key_extra(g, res)
            chk.violation(key, '; '.join(res['diffs'])[:1500],
                          {'kind': 'transition', 'stage': stage, 'group': g, 'seed': seed, 'opts': opts,
                           'observed': {k: res.get(k) for k in ('obs', 'run', 'observed_state', 'names')}})
        elif len(chk.samples) < 4 and res.get('nontrivial'):
            chk.sample({'stage': stage, 'cfg': g['cfg'], 'pre': g['pre'], 'op': g['lab'],
                        'concrete': res.get('run', {}).get('argv'), 'names': res.get('names'),
                        'observed_outputs': res.get('obs'), 'verdict': 'matches the specification'})
    chk.stage_stats.setdefault(stage, {}).update({'generated_cases': total, 'executed': len(jobs), 'mismatches': nviol,
                                                   'all_executed': len(picked) == total})
    return results


def replay_case(path):
    """./check ID --replay file"""
    from harness import runner
    d = json.load(open(path))
    case = d['case']
    if case.get('kind') != 'transition':
        print('replay of %s cases is handled by the owning check' % case.get('kind'))
        return 2
    runner.prepare()
    res = tt.run_group(case['group'], case['seed'], case.get('opts') or {})
    print(json.dumps({k: res.get(k) for k in ('status', 'diffs', 'obs', 'run')}, indent=1, default=repr))
    if res['status'] == 'mismatch':
        print('VIOLATION property=%s replay=%s' % (d['property'], path))
        return 1
    return 0 if res['status'] == 'ok' else 2

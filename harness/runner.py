"""Run one real trash-* script in a forked, pre-imported interpreter.

The worker process (harness.pool) imports trashcli once from the tree under
test (VERIF_REPO or /repo); every command is a fork()ed child that installs
the shim, sets cwd / environment / argv / stdio at file-descriptor level and
executes the very script the CLI installs through runpy.
"""
from __future__ import annotations

import io
import json
import os
import runpy
import signal
import sys
import tempfile
import time
import traceback

REPO = os.environ.get('VERIF_REPO', '/repo')
_prepared = [False]


def prepare():
    """Pre-import everything the scripts need (idempotent)."""
    if _prepared[0]:
        return
    sys.dont_write_bytecode = True
    if REPO not in sys.path or sys.path[0] != REPO:
        sys.path.insert(0, REPO)
    from harness import shim
    shim.install_clock()
    import argparse, fnmatch, shutil, random, pwd, grp, pprint, re  # noqa
    import psutil  # noqa
    import six, six.moves, six.moves.urllib.parse  # noqa
    import trashcli
    assert os.path.realpath(os.path.dirname(trashcli.__file__)) == os.path.realpath(os.path.join(REPO, 'trashcli')), \
        'trashcli imported from %s, expected %s' % (trashcli.__file__, REPO)
    import trashcli.put.main, trashcli.restore.main, trashcli.empty.main  # noqa
    import trashcli.list.main, trashcli.rm.main  # noqa
    _prepared[0] = True


def _wrap_stdio(strict=False):
    if strict:
        # a UTF-8 locale proper (en_US.UTF-8 ...): names that are not valid UTF-8 cannot be printed on stdout
        sys.stdin = io.TextIOWrapper(io.FileIO(0, 'r', closefd=False), encoding='utf-8', errors='strict')
        sys.stdout = io.TextIOWrapper(io.FileIO(1, 'w', closefd=False), encoding='utf-8', errors='strict')
        sys.stderr = io.TextIOWrapper(io.FileIO(2, 'w', closefd=False), encoding='utf-8', errors='backslashreplace',
                                      line_buffering=True)
        sys.__stdout__, sys.__stderr__, sys.__stdin__ = sys.stdout, sys.stderr, sys.stdin
        return
    # What CPython gives a CLI started with no locale set (C locale -> UTF-8
    # mode via PEP 538/540): utf-8 with surrogateescape on stdin/stdout,
    # backslashreplace on stderr.
    sys.stdin = io.TextIOWrapper(io.FileIO(0, 'r', closefd=False), encoding='utf-8', errors='surrogateescape')
    sys.stdout = io.TextIOWrapper(io.FileIO(1, 'w', closefd=False), encoding='utf-8', errors='surrogateescape')
    sys.stderr = io.TextIOWrapper(io.FileIO(2, 'w', closefd=False), encoding='utf-8', errors='backslashreplace',
                                  line_buffering=True)
    sys.__stdout__ = sys.stdout
    sys.__stderr__ = sys.stderr
    sys.__stdin__ = sys.stdin


class Handle(object):
    pass


def spawn(script, argv, cwd, env, stdin=b'', shim_cfg=None, now=None, tty=False, workdir=None, keep_fds=()):
    """fork a child that runs REPO/<script>; returns a Handle (use finish() to collect)"""
    prepare()
    h = Handle()
    h.script = script
    h.wd = workdir or tempfile.mkdtemp(prefix='vrun-', dir='/dev/shm' if os.path.isdir('/dev/shm') else None)
    h.own_wd = workdir is None
    wd = h.wd
    h.p_in = os.path.join(wd, 'in')
    h.p_out = os.path.join(wd, 'out')
    h.p_err = os.path.join(wd, 'err')
    h.p_tr = os.path.join(wd, 'trace')
    with open(h.p_in, 'wb') as f:
        f.write(stdin or b'')
    for p in (h.p_out, h.p_err, h.p_tr):
        open(p, 'wb').close()
    h.master = slave = None
    h.tty = tty
    h.stdin = stdin
    if tty:
        import pty
        h.master, slave = pty.openpty()
    h.t0 = time.time()
    pid = os.fork()
    if pid == 0:
        code = 70
        try:
            os.setsid() if tty else None
            fi = slave if tty else os.open(h.p_in, os.O_RDONLY)
            fo = os.open(h.p_out, os.O_WRONLY | os.O_APPEND)
            fe = os.open(h.p_err, os.O_WRONLY | os.O_APPEND)
            ft = os.open(h.p_tr, os.O_WRONLY | os.O_APPEND)
            os.dup2(fi, 0)
            os.dup2(fo, 1)
            os.dup2(fe, 2)
            _wrap_stdio(strict=bool((shim_cfg or {}).get('stdio_strict')))
            os.environ.clear()
            for k, v in env.items():
                os.environ[k] = v
            os.environ['TRASHCLI_VERIF_SHIM'] = '1'
            os.chdir(cwd)
            # the signal dispositions of a freshly started interpreter, whatever the check itself inherited (a job started
            # in the background of a non-interactive shell has SIGINT ignored, nohup ignores SIGHUP)
            signal.signal(signal.SIGINT, signal.default_int_handler)
            for sg in (signal.SIGTERM, signal.SIGHUP, signal.SIGQUIT, signal.SIGPIPE):
                try:
                    signal.signal(sg, signal.SIG_DFL if sg != signal.SIGPIPE else signal.SIG_IGN)
                except (OSError, ValueError):
                    pass
            from harness import shim
            if now is not None:
                shim.NOW[0] = tuple(now)
            if shim_cfg is not None:
                cfg = dict(shim_cfg)
                cfg['trace_fd'] = ft
                sh = shim.Shim(cfg)
                sh.install()
            path = os.path.join(REPO, script)
            sys.argv = [path] + [os.fsdecode(a) if isinstance(a, bytes) else a for a in argv]
            try:
                runpy.run_path(path, run_name='__main__')
                code = 0
            except SystemExit as e:
                c = e.code
                if c is None:
                    code = 0
                elif isinstance(c, int):
                    code = c
                else:
                    sys.stderr.write(str(c) + '\n')
                    code = 1
            except KeyboardInterrupt:
                traceback.print_exc()
                code = 130
            except BaseException:
                traceback.print_exc()
                sys.stderr.write('VERIF-UNCAUGHT\n')
                code = 1
            try:
                sys.stdout.flush()
            except Exception:
                pass
            try:
                sys.stderr.flush()
            except Exception:
                pass
        finally:
            os._exit(code & 0xff)
    h.pid = pid
    if tty:
        os.close(slave)
        if stdin:
            os.write(h.master, stdin)
    return h


def finish(h, timeout=20.0):
    status = None
    deadline = h.t0 + timeout
    while True:
        wpid, st = os.waitpid(h.pid, os.WNOHANG)
        if wpid == h.pid:
            status = st
            break
        if time.time() > deadline:
            os.kill(h.pid, signal.SIGKILL)
            os.waitpid(h.pid, 0)
            status = 'timeout'
            break
        time.sleep(0.0005)
    if h.tty:
        try:
            os.close(h.master)
        except OSError:
            pass
    res = {'script': h.script}
    if status == 'timeout':
        res['exit'] = None
        res['timeout'] = True
    elif os.WIFSIGNALED(status):
        res['exit'] = -os.WTERMSIG(status)
    else:
        res['exit'] = os.WEXITSTATUS(status)
    res['stdout'] = open(h.p_out, 'rb').read()
    res['stderr'] = open(h.p_err, 'rb').read()
    tr = []
    with open(h.p_tr, 'rb') as f:
        for line in f:
            line = line.strip()
            if line:
                try:
                    tr.append(json.loads(line.decode('utf-8', 'surrogateescape')))
                except ValueError:
                    tr.append({'op': 'garbled', 'raw': [], 'res': None})
    res['trace'] = tr
    res['uncaught'] = b'VERIF-UNCAUGHT' in res['stderr']
    res['wall'] = time.time() - h.t0
    if h.own_wd:
        for p in (h.p_in, h.p_out, h.p_err, h.p_tr):
            try:
                os.unlink(p)
            except OSError:
                pass
        try:
            os.rmdir(h.wd)
        except OSError:
            pass
    return res


def run(script, argv, cwd, env, stdin=b'', shim_cfg=None, now=None, timeout=20.0,
        tty=False, workdir=None, trace_path=None, pre_exec=None):
    """Run REPO/<script> with argv (list of str/bytes) and return a result dict.

    stdin: bytes fed to the command (empty -> EOF at once)."""
    h = spawn(script, argv, cwd, env, stdin=stdin, shim_cfg=shim_cfg, now=now, tty=tty, workdir=workdir)
    return finish(h, timeout)


def exit_class(res):
    """zero / nonzero / crash (uncaught exception) / killed / timeout"""
    if res.get('timeout'):
        return 'timeout'
    e = res['exit']
    if e is not None and e < 0:
        return 'killed'
    if e == 137 or e == 99:
        return 'killed' if e == 137 else 'budget'
    if res.get('uncaught'):
        return 'crash'
    return 'ok' if e == 0 else 'fail'

"""Function-level observations on the real commands (layer F binding).

Every function here builds a small real sandbox, runs real trash-* commands on
generated data (random and boundary inputs: names of any bytes, long names,
deep paths, foreign .trashinfo contents, dates, patterns, replies) and returns
observations  {f: ..., inputs ..., what the command did}  that TLC judges with
spec/FunTrace.tla.  Nothing here decides what is correct."""
from __future__ import annotations

import datetime
import os
import random
import re
import shutil
import tempfile

from harness import runner, world

SHM = world.SHM
NONE = [-1]


def B(b):
    return list(b)


def CP(b):
    """code points of a file-system name (surrogateescape for undecodable bytes)"""
    return [ord(c) for c in os.fsdecode(b)]


class Box(object):
    """a bare sandbox: root volume with HOME, one extra volume m1 (virtual mounts)"""

    def __init__(self, seed, home_own_volume=False, uid=None):
        self.rnd = random.Random('box|%s' % seed)
        self.base = tempfile.mkdtemp(prefix='vf-', dir=SHM)
        self.root = os.path.join(self.base, 'w')
        self.uid = uid if uid is not None else self.rnd.choice([0, 1000, 4242])
        os.makedirs(os.path.join(self.root, 'home', 'u'))
        os.makedirs(os.path.join(self.root, 'm1'))
        os.makedirs(os.path.join(self.root, 'cwd'))
        self.mounts = [self.root, os.path.join(self.root, 'm1')]
        if home_own_volume:
            self.mounts.append(os.path.join(self.root, 'home'))
        self.home = os.path.join(self.root, 'home', 'u')

    def destroy(self):
        shutil.rmtree(self.base, ignore_errors=True)

    def env(self, extra=None):
        e = {'PATH': '/usr/bin:/bin', 'HOME': self.home, 'TRASH_PUT_FAKE_UID_FOR_TESTING': str(self.uid)}
        if extra:
            e.update(extra)
        return e

    def shim(self, **kw):
        c = {'root': self.root, 'mounts': self.mounts, 'uid': self.uid, 'seed': 1}
        c.update(kw)
        return c

    def run(self, script, argv, cwd=None, stdin=b'', env=None, now=None, permute=False):
        return runner.run(script, argv, cwd or os.path.join(self.root, 'cwd'), self.env(env), stdin=stdin,
                          shim_cfg=self.shim(permute=permute), now=now, timeout=30)

    def tdir(self, kind):
        if kind == 'home':
            return os.path.join(self.home, '.local', 'share', 'Trash')
        if kind == 't1':
            return os.path.join(self.root, 'm1', '.Trash', str(self.uid))
        if kind == 't2':
            return os.path.join(self.root, 'm1', '.Trash-%d' % self.uid)
        if kind == 'c':
            return os.path.join(self.root, 'm1', 'custom-trash')
        if kind == 'cvol':
            # a --trash-dir that is NAMED like a volume trash directory but lies below an ordinary directory of the volume
            # (contents of a disk copied into a sub-directory): relative Path= values are relative to the volume all the same
            return os.path.join(self.root, 'm1', 'copied-disk', '.Trash-%d' % self.uid)
        raise ValueError(kind)

    def tbase(self, kind):
        return None if kind == 'home' else os.path.join(self.root, 'm1')

    def make_tdir(self, kind):
        p = self.tdir(kind)
        if kind == 't1':
            top = os.path.dirname(p)
            os.makedirs(top, exist_ok=True)
            os.chmod(top, 0o1777)
        os.makedirs(os.path.join(p, 'files'), exist_ok=True)
        os.makedirs(os.path.join(p, 'info'), exist_ok=True)
        return p


def rand_name(rnd, maxlen=None, utf8_only=False):
    """a file name: any bytes 1..255 except '/' (NUL impossible), sometimes long, sometimes from a nasty pool"""
    r = rnd.random()
    if r < 0.25:
        pool = [b'-rf', b' ', b'a b', b'new\nline', b'cr\r', b'100%', b'%41', b'%', b'%%', b'a+b', b'=', b'[x]', b'#', b'?', b'*',
                b'caf\xc3\xa9', b'\xe2\x82\xac', b'.hidden', b'x.trashinfo', b'~', b"it's", b'"q"', b'\\', b'\t', b'\x01\x7f',
                b'Path=evil', b'[Trash Info]', b'..a', b'a..', b'...', b'DeletionDate=1999-01-01T00:00:00',
                # valid UTF-8 that is not in normal form C (decomposed accents as HFS+ stores them, Hangul jamo, the Angstrom
                # and Ohm signs): names are bytes, the composed spelling is ANOTHER name
                b'cafe\xcc\x81', b'A\xcc\x8a.txt', b'\xe2\x84\xab', b'\xe1\x84\x80\xe1\x85\xa1', b'\xe2\x84\xa6 ohm', b'n\xcc\x83o']
        if not utf8_only:
            pool += [b'\xff', b'bad\xfe\xff', b'\xc3', b'\xe2\x82', b'latin\xe9']
        n = rnd.choice(pool)
    else:
        ln = rnd.choice([1, 2, 3, 5, 8, 13, 40, 100, 200, 236]) if r < 0.9 else 236
        if utf8_only:
            alphabet = [bytes([c]) for c in range(1, 128) if c != 47] + [b'\xc3\xa9', b'\xe6\x97\xa5', b'\xf0\x9f\x98\x80', b'e\xcc\x81', b'\xe2\x84\xa6']
            n = b''
            while len(n) < ln:
                n += rnd.choice(alphabet)
            n = n[:ln]
            n = n.decode('utf-8', 'ignore').encode()
        else:
            n = bytes(rnd.choice([c for c in range(1, 256) if c != 47]) for _ in range(ln))
    if n in (b'.', b'..', b''):
        n = b'x' + n
    if maxlen:
        n = n[:maxlen]
    return n


def rand_dirs(rnd, depth=None):
    d = depth if depth is not None else rnd.choice([0, 1, 1, 2, 3, 6])
    return [rand_name(rnd, maxlen=rnd.choice([3, 12, 60])) for _ in range(d)]


# ---------------------------------------------------------------------------
# A. what trash-put writes, and how the readers read it back (C03)

def put_and_readback(seed, n=14, utf8_only=False, alphabet_paths=None, td=None, p_long=0.0):
    """td: None (home trash / $topdir/.Trash-$uid), 'c' (--trash-dir on the volume m1, every command gets it),
    'clink' (the same directory, always named through a symlink that lives on the root volume: relative Path= values are
    then relative to the volume of the path as spelled, for the writer and for the readers alike)"""
    rnd = random.Random('putrb|%s' % seed)
    box = Box(seed)
    obs = []
    notes = []
    try:
        now = rnd.choice([(2020, 2, 29, 23, 59, 59), (1999, 12, 31, 23, 59, 59), (2038, 1, 19, 3, 14, 7),
                          (2001, 1, 1, 0, 0, 0), (2024, 2, 29, 12, 0, 1), (rnd.randint(1971, 2099), rnd.randint(1, 12),
                                                                          rnd.randint(1, 28), rnd.randint(0, 23),
                                                                          rnd.randint(0, 59), rnd.randint(0, 59))])
        entries = []
        rootb = os.fsencode(box.root)
        used = set()
        td_args = []
        relbase = None
        if td:
            real_td = box.tdir('cvol' if td == 'cvol' else 'c')
            os.makedirs(os.path.dirname(real_td), exist_ok=True)
            if td == 'clink':
                os.symlink(os.path.join(box.root, 'm1'), os.path.join(box.root, 'to-m1'))
                td_args = ['--trash-dir', os.path.join(box.root, 'to-m1', os.path.basename(real_td))]
                relbase = rootb
            else:
                td_args = ['--trash-dir', real_td]
                relbase = rootb + b'/m1'
        for i in range(n):
            vol = rnd.choice(['R', 'V1']) if not td else 'V1'
            top = rootb if vol == 'R' else rootb + b'/m1'
            if alphabet_paths is not None:
                rel = alphabet_paths[i % len(alphabet_paths)]
                comps = [c for c in rel.split(b'/') if c not in (b'', b'.', b'..')]
                if not comps:
                    comps = [b'x']
                dirs, name = [b'd%d' % i] + comps[:-1], comps[-1]
            else:
                dirs, name = [b'd%d' % i] + rand_dirs(rnd), rand_name(rnd, utf8_only=utf8_only)
                if rnd.random() < p_long:
                    # a legal path whose percent-encoding is longer than PATH_MAX (every escaped byte takes three characters)
                    dirs += [('%d-' % k2 + '\u044b\u0416 ' * 40).encode() for k2 in range(7)]
            p = top
            try:
                for d in dirs:
                    p = p + b'/' + d
                    if not os.path.isdir(p):
                        os.mkdir(p)
                full = p + b'/' + name
                if full in used:
                    continue
                kind = rnd.choice(['file', 'file', 'dir', 'link'])
                if kind == 'file':
                    with open(full, 'wb') as f:
                        f.write(b'content %d' % i)
                elif kind == 'dir':
                    os.mkdir(full)
                else:
                    os.symlink(b'/nonexistent', full)
            except OSError:
                continue         # name too long for the path etc.
            used.add(full)
            entries.append({'path': full, 'vol': vol, 'top': top, 'kind': kind})
            if rnd.random() < 0.15 and len(name) < 200:
                # what an interrupted run left long ago: an info WITHOUT payload under the very name this entry will want,
                # longer than the one to be written and hours old.  It is somebody's entry all the same: not to be reused.
                tdp = os.fsencode(box.tdir(('cvol' if td == 'cvol' else 'c') if td else 'home' if vol == 'R' else 't2'))
                try:
                    os.makedirs(tdp + b'/info', exist_ok=True)
                    os.makedirs(tdp + b'/files', exist_ok=True)
                    stale = tdp + b'/info/' + name + b'.trashinfo'
                    if not os.path.lexists(stale):
                        with open(stale, 'wb') as f:
                            f.write(world.format_info(b'/long/ago/' + b'x' * 300 + b'/' + name, '1999-01-01T00:00:00')
                                    + b'X-Note=left by an interrupted run\n')
                        os.utime(stale, (1000000000, 1000000000))
                except OSError:
                    pass
        # real trash-put, a few arguments per invocation
        k = 0
        while k < len(entries):
            batch = entries[k:k + rnd.choice([1, 2, 5])]
            k += len(batch)
            if len(batch) >= 2 and rnd.random() < 0.4:
                # one argument is named through a symlink kept in ANOTHER argument's directory: 'dir(e1)/.lnk/../name' is
                # dir(e2)/name for the file system (and dir(e1)/name for whoever collapses '..' lexically)
                e1, e2 = batch[0], batch[1]
                d1, d2 = os.path.dirname(e1['path']), os.path.dirname(e2['path'])
                try:
                    if d1 != d2 and not os.path.lexists(d1 + b'/.lnk') and not os.path.lexists(d2 + b'/.sub'):
                        os.mkdir(d2 + b'/.sub')
                        os.symlink(d2 + b'/.sub', d1 + b'/.lnk')
                        e2['arg'] = d1 + b'/.lnk/../' + os.path.basename(e2['path'])
                except OSError:
                    pass
            res = box.run('trash-put', td_args + ['--'] + [e.get('arg', e['path']) for e in batch], now=now)
            for e in batch:
                e['put_exit'] = res['exit']
                e['put_err'] = res['stderr'][-300:].decode('utf-8', 'replace')
        # find the info files
        for e in entries:
            tdir = os.fsencode(box.tdir(('cvol' if td == 'cvol' else 'c') if td else 'home' if e['vol'] == 'R' else 't2'))
            if relbase is not None:
                e['top'] = relbase
            base = os.path.basename(e['path'])
            content = None
            slot = None
            try:
                for fn in os.listdir(tdir + b'/info'):
                    if fn.endswith(b'.trashinfo') and (fn[:-10] == base or re.fullmatch(re.escape(base) + rb'_\d+', fn[:-10])
                                                      or fn[:-10].startswith(base[:200])):
                        c = open(tdir + b'/info/' + fn, 'rb').read()
                        pth, _ = world.parse_info(c)
                        want = e['path'] if e['vol'] == 'R' else e['path'][len(e['top']) + 1:]
                        if pth == want:
                            content, slot = c, fn[:-10]
                            break
            except OSError:
                pass
            if content is None and os.path.lexists(e['path']):
                # not trashed at all: still an observation (the writer produced nothing well-formed for this location)
                pass
            e['content'] = content
            e['slot'] = slot
            e['tdir'] = tdir
            loc = e['path'] if e['vol'] == 'R' else e['path'][len(e['top']) + 1:]
            obs.append({'f': 'format', 'loc': B(loc), 'date': list(now), 'relative': e['vol'] != 'R',
                        'content': B(content) if content is not None else NONE,
                        'note': 'put exit %s %s' % (e.get('put_exit'), e.get('put_err', '')[-120:]) if content is None else ''})
        # read back: trash-list and trash-restore must show each location; unparsed bytes are reported
        known = {e['path']: e for e in entries if e['content'] is not None}
        lres = box.run('trash-list', td_args)
        seen_list = parse_known(lres['stdout'], known)
        rres = box.run('trash-restore', td_args + ['/'], stdin=b'')
        seen_restore = parse_known(rres['stdout'], known)
        for e in entries:
            if e['content'] is None:
                continue
            base = B(e['top']) if e['vol'] != 'R' else B(b'/')
            for who, seen in (('list', seen_list), ('restore', seen_restore)):
                hit = seen.get(e['path'])
                obs.append({'f': 'meaning', 'reader': who, 'content': B(e['content']), 'base': base,
                            'path': B(e['path']) if hit is not None else NONE,
                            'date': hit if hit is not None and hit != 'nodate' else NONE, 'datechecked': True,
                            'note': '' if hit is not None else 'not shown; exit %s stderr %s' % (
                                (lres if who == 'list' else rres)['exit'],
                                (lres if who == 'list' else rres)['stderr'][-200:].decode('utf-8', 'replace'))})
        # trash-rm with the exact (glob-escaped) full path removes exactly that entry; restore brings one back
        pick = [e for e in entries if e['content'] is not None]
        rnd.shuffle(pick)
        for e in (pick[:3] if not td else []):         # trash-rm has no --trash-dir
            before = set(os.listdir(e['tdir'] + b'/info'))
            pat = glob_escape(e['path'])
            box.run('trash-rm', [pat])
            after = set(os.listdir(e['tdir'] + b'/info'))
            gone = before - after
            obs.append({'f': 'match', 'pat': CP(pat), 'path': CP(e['path']), 'removed': (e['slot'] + b'.trashinfo') in gone,
                        'note': 'exact-path pattern'})
            for fn in before - gone:
                pass
            for o2 in pick:
                if o2 is not e and o2['tdir'] == e['tdir'] and (o2['slot'] + b'.trashinfo') in gone:
                    obs.append({'f': 'match', 'pat': CP(pat), 'path': CP(o2['path']), 'removed': True, 'note': 'collateral'})
            e['content'] = None
        return obs
    finally:
        box.destroy()


def timed_put(seed):
    """one trash-put with several arguments while the virtual clock advances with every operation of the run: each
    DeletionDate must lie in the window in which ITS argument was handled (observations f = 'timed')"""
    import datetime as _d
    rnd = random.Random('timed|%s' % seed)
    box = Box(seed)
    obs = []
    try:
        now = rnd.choice([(2020, 2, 29, 23, 58, 1), (1999, 12, 31, 23, 40, 59), (2001, 1, 1, 0, 0, 0),
                          (rnd.randint(1971, 2099), rnd.randint(1, 12), rnd.randint(1, 28), rnd.randint(0, 23), rnd.randint(0, 59), rnd.randint(0, 59))])
        step = rnd.choice([1, 7, 61, 3601])
        rootb = os.fsencode(box.root)
        n = rnd.choice([2, 3, 4])
        entries = []
        for i in range(n):
            vol = rnd.choice(['R', 'V1'])
            top = rootb if vol == 'R' else rootb + b'/m1'
            d = top + b'/s%d' % i
            os.mkdir(d)
            full = d + b'/' + rand_name(rnd, maxlen=40, utf8_only=True)
            kind = rnd.choice(['file', 'dir', 'tree'])
            if kind == 'file':
                with open(full, 'wb') as f:
                    f.write(b'content %d' % i)
            else:
                os.mkdir(full)
                if kind == 'tree':
                    for k in range(rnd.randint(1, 6)):
                        with open(full + b'/f%d' % k, 'wb') as f:
                            f.write(b'x' * k)
            entries.append({'path': full, 'vol': vol, 'top': top})
        inter = rnd.random() < 0.3
        argv = (['-i'] if inter else []) + ['--'] + [e['path'] for e in entries]
        res = runner.run('trash-put', argv, os.path.join(box.root, 'cwd'), box.env(), stdin=b'y\n' * n if inter else b'',
                         shim_cfg=box.shim(trace=True, clock_step=step), now=now, timeout=30)
        t0 = _d.datetime(*now)
        tup = lambda k: list((t0 + _d.timedelta(seconds=step * k)).timetuple()[:6])
        for e in entries:
            rel = os.fsdecode(e['path'])[len(box.root) + 1:]
            touching = [ev['seq'] for ev in res.get('trace', []) if 'seq' in ev and any(
                r is not None and (r == rel or r.startswith(rel + '/')) for r in (ev.get('raw') or []))]
            tdir = os.fsencode(box.tdir('home' if e['vol'] == 'R' else 't2'))
            content = None
            try:
                for fn in os.listdir(tdir + b'/info'):
                    c = open(tdir + b'/info/' + fn, 'rb').read()
                    pth, _ = world.parse_info(c)
                    if pth == (e['path'] if e['vol'] == 'R' else e['path'][len(e['top']) + 1:]):
                        content = c
            except OSError:
                pass
            if content is None or not touching or os.path.lexists(e['path']):
                obs.append({'f': 'broken', 'note': 'timed put: %r was not trashed (exit %s, %s)' % (
                    e['path'], res['exit'], res['stderr'][-200:].decode('utf-8', 'replace'))})
                continue
            obs.append({'f': 'timed', 'content': B(content), 'lo': tup(min(touching) - 1), 'hi': tup(max(touching)),
                        'note': 'step %d s, argument %d of %d' % (step, entries.index(e) + 1, n)})
        return obs
    finally:
        box.destroy()


def glob_escape(b):
    out = bytearray()
    for c in b:
        if c in b'*?[':
            out += b'[' + bytes([c]) + b']'
        else:
            out.append(c)
    return bytes(out)


def parse_known(text, known):
    """-> {path: [Y,M,D,h,m,s] | 'nodate'} for the known paths that end a record of text"""
    res = {}
    keys = sorted(known, key=len, reverse=True)
    pos = 0
    while pos < len(text):
        best = None
        for p in keys:
            idx = text.find(p + b'\n', pos)
            if idx != -1 and (best is None or idx < best[0] or (idx == best[0] and len(p) > len(best[1]))):
                best = (idx, p)
        if best is None:
            break
        idx, p = best
        pre = text[pos:idx]
        if b'\n' in pre:
            pre = pre[pre.rindex(b'\n') + 1:]
        pre = re.sub(rb'^\s*\d+\s', b'', pre) if re.match(rb'^\s*\d+\s', pre) and len(re.sub(rb'\D', b'', pre)) > 14 else pre
        digits = re.sub(rb'\D', b'', pre)
        if len(digits) >= 14:
            d = digits[-14:]
            res[p] = [int(d[0:4]), int(d[4:6]), int(d[6:8]), int(d[8:10]), int(d[10:12]), int(d[12:14])]
        else:
            res[p] = 'nodate'
        pos = idx + len(p) + 1
    return res


# ---------------------------------------------------------------------------
# B. foreign .trashinfo contents: do the four readers agree with Meaning (C20)

def esc_variant(rnd, b):
    """an escaped form of path bytes b as another implementation might write it"""
    out = bytearray()
    for c in b:
        r = rnd.random()
        if c in world.UNRESERVED or c == 0x2f:
            if r < 0.1:
                out += (b'%%%02X' if rnd.random() < 0.5 else b'%%%02x') % c
            else:
                out.append(c)
        elif c in b"!$&'()*,;:@" and r < 0.6:
            out.append(c)          # reserved characters many writers leave alone
        else:
            out += (b'%%%02X' if rnd.random() < 0.6 else b'%%%02x') % c
    return bytes(out)


def foreign_contents(rnd, abs_path, rel_path):
    """-> (content bytes, strict): strict means the content stays inside what Meaning pins down
    (LF line ends, strictly formatted or clearly invalid dates)"""
    use_rel = rel_path is not None and rnd.random() < 0.6
    p = rel_path if use_rel else abs_path
    date = '%04d-%02d-%02dT%02d:%02d:%02d' % (rnd.randint(1971, 2099), rnd.randint(1, 12), rnd.randint(1, 28),
                                             rnd.randint(0, 23), rnd.randint(0, 59), rnd.randint(0, 59))
    lines = []
    strict = True
    if rnd.random() < 0.85:
        lines.append(b'[Trash Info]')
    pl = b'Path=' + esc_variant(rnd, p)
    dl = b'DeletionDate=' + date.encode()
    r = rnd.random()
    if r < 0.08:
        dl = b'DeletionDate=' + rnd.choice([b'yesterday', b'2020-13-01T00:00:00', b'2021-02-29T10:00:00', b'', b'2020-01-01',
                                            b'2020-01-01T25:00:00'])
    elif r < 0.12:
        dl = None
    body = [pl] + ([dl] if dl else [])
    if rnd.random() < 0.5:
        rnd.shuffle(body)
    extras = [b'X-KDE-Size=12', b'# comment', b'', b'[Other Section]', b'Name=foo', b'path=/lower/case/key', b' Path=/indented',
              b'PathX=/not/the/key', b'DeletionDate', b'Path']
    for _ in range(rnd.choice([0, 0, 1, 2, 4])):
        body.insert(rnd.randint(0, len(body)), rnd.choice(extras))
    if rnd.random() < 0.15:
        body.append(b'Path=' + esc_variant(rnd, b'/second/path/loses'))
    if rnd.random() < 0.15:
        body.append(b'DeletionDate=1999-09-09T09:09:09')
    lines += body
    if rnd.random() < 0.08:
        # CRLF or trailing blanks: only four-way agreement is required
        strict = False
        sep = b'\r\n' if rnd.random() < 0.5 else b' \n'
    else:
        sep = b'\n'
    c = sep.join(lines) + (sep if rnd.random() < 0.9 else b'')
    return c, strict


def foreign_readers(seed, n=10, home_own_volume=False):
    rnd = random.Random('foreign|%s' % seed)
    box = Box(seed, home_own_volume=home_own_volume)
    obs = []
    try:
        rootb = os.fsencode(box.root)
        # 'clink': the --trash-dir of kind 'c', but every command is given it through a symlink that lives on the root
        # volume: relative Path= values are then relative to the volume of the path as spelled (the root), for all readers
        kinds = ['home', 't1', 't2', 'c', 'clink']
        link_td = os.path.join(box.root, 'to-m1', os.path.basename(box.tdir('c')))
        ents = []
        for i in range(n):
            kind = rnd.choice(kinds)
            linked = kind == 'clink'
            if linked:
                kind = 'c'
                if not os.path.lexists(os.path.join(box.root, 'to-m1')):
                    os.symlink(os.path.join(box.root, 'm1'), os.path.join(box.root, 'to-m1'))
            tdir = os.fsencode(box.make_tdir(kind))
            inside_v1 = rnd.random() < 0.7 or kind != 'home'
            top = rootb + b'/m1' if (kind != 'home') else (rootb if rnd.random() < 0.5 else rootb + b'/m1')
            outside = kind in ('t1', 't2') and not linked and rnd.random() < 0.25
            if outside:
                top = rootb + b'/old-mount'        # an absolute Path that does not lie under $topdir (a disk mounted elsewhere before)
            dirs = [b'o%d' % i] + rand_dirs(rnd, depth=rnd.choice([0, 1, 2]))
            if rnd.random() < 0.03:
                # a legal path (about 1500 bytes) whose percent-encoding is longer than PATH_MAX
                dirs += [('%d-' % k + '\u044b\u0416 ' * 40).encode() for k in range(7)]
            name = rand_name(rnd, maxlen=60, utf8_only=True)
            absp = top + b'/' + b'/'.join(dirs + [name])
            relp = b'/'.join(dirs + [name]) if kind != 'home' or rnd.random() < 0.3 else None
            if outside:
                relp = None
            if linked:
                relp = b'm1/' + relp
            if rnd.random() < 0.12:
                # not in normal form, as another writer may record it: '//' or '/./' inside.  The readers owe each other the
                # SAME string (trash-list prints it, trash-rm matches it, trash-restore offers it)
                noise = rnd.choice([b'//', b'/./'])
                cut = absp.rfind(b'/')
                absp = absp[:cut] + noise + absp[cut + 1:]
                if relp is not None and b'/' in relp:
                    cut = relp.rfind(b'/')
                    relp = relp[:cut] + noise + relp[cut + 1:]
            content, strict = foreign_contents(rnd, absp, relp)
            slot = b'f%d' % i
            with open(tdir + b'/info/' + slot + b'.trashinfo', 'wb') as f:
                f.write(content)
            with open(tdir + b'/files/' + slot, 'wb') as f:
                f.write(b'payload %d' % i)
            ents.append({'kind': kind, 'tdir': tdir, 'slot': slot, 'content': content, 'strict': strict, 'i': i, 'linked': linked,
                         'td_arg': link_td if linked else os.fsdecode(tdir)})
        # a damaged neighbour (C19): an info whose tail was zeroed after a crash - it still has a Path= line, with NUL bytes
        # in it, naming a place that has nothing to do with the others.  Whatever it gets, the others are owed the same.
        poisoned = False
        if ents and rnd.random() < 0.35:
            e0 = rnd.choice(ents)
            pc = rnd.choice([b'[Trash Info]\nPath=/zz/poison' + b'\x00' * 40,
                             b'[Trash Info]\nPath=/zz/po\x00ison\nDeletionDate=2020-01-01T00:00:00\n',
                             b'[Trash Info]\nDeletionDate=2020-01-01T00:00:00\nPath=zz/rel\x00\x00\n'])
            with open(e0['tdir'] + b'/info/zz-poison.trashinfo', 'wb') as f:
                f.write(pc)
            with open(e0['tdir'] + b'/files/zz-poison', 'wb') as f:
                f.write(b'poison payload')
            poisoned = True
        # what each reader sees: we do not know the paths in advance (that is the question), so outputs are parsed by
        # stripping the date prefix of each record; records are delimited using the payload-path column of --files
        views = {}
        for e in ents:
            td = e['td_arg']
            args_td = ['--trash-dir', td] if e['kind'] == 'c' else []
            lres = box.run('trash-list', args_td + ['--files'])
            e['list'] = find_by_payload(lres['stdout'], os.fsencode(td) + b'/files/' + e['slot'] if e['linked'] else e['tdir'] + b'/files/' + e['slot'])
            rargs = (['--trash-dir', td] if e['kind'] == 'c' else []) + ['/']
            rres = box.run('trash-restore', rargs, stdin=b'')
            e['restore_out'] = rres['stdout']
        for e in ents:
            lp = e['list']
            # trash-restore lists "%4d date path": identify this entry's line by the path trash-list showed (agreement)
            rp = None
            if lp is not None and lp[0] is not None:
                m = re.search(rb'^\s*\d+ (\S+ \S+|None) ' + re.escape(lp[0]) + rb'$', e['restore_out'], re.M)
                if m:
                    rp = (lp[0], m.group(1))
            e['restore'] = rp
        # trash-rm with the exact path as trash-list shows it; trash-empty at the date boundary
        for e in ents:
            base = B(os.fsencode(box.tbase(e['kind']))) if e['kind'] != 'home' else B(b'/')
            if e['linked']:
                base = B(rootb)
            lp = e['list']
            date_l = parse_date_field(lp[1]) if lp else None
            if e['strict'] and not (e['kind'] == 'home' and is_relative(e['content'])):
                obs.append({'f': 'meaning', 'reader': 'list', 'content': B(e['content']), 'base': base,
                            'path': B(lp[0]) if lp and lp[0] is not None else NONE,
                            'date': date_l if date_l else NONE, 'datechecked': True, 'kind': e['kind']})
            # agreement list <-> restore (always required)
            if lp and lp[0] is not None:
                rp = e['restore']
                obs.append({'f': 'meaning', 'reader': 'restore-vs-list', 'content': B(b'Path=' + world.escape(lp[0]) + b'\n' + (
                    b'DeletionDate=%04d-%02d-%02dT%02d:%02d:%02d\n' % tuple(date_l) if date_l else b'')), 'base': B(b'/'),
                            'path': B(rp[0]) if rp else NONE,
                            'date': (parse_date_field(rp[1]) or NONE) if rp else NONE, 'datechecked': rp is not None,
                            'kind': e['kind'], 'orig_rel': is_relative(e['content']),
                            'note': 'restore must show what list shows'})
        # trash-restore asked for the directory the entry was trashed from (not for /): the entry is offered there too
        for e in ents[:3]:
            lp = e['list']
            if not lp or lp[0] is None or not lp[0].startswith(b'/') or b'//' in lp[0] or b'/./' in lp[0] or lp[0].endswith(b'/'):
                continue
            if e['kind'] == 'home' and is_relative(e['content']):
                continue       # the known finding of C20: list and restore resolve such a Path against different bases
            parent = os.path.dirname(lp[0])
            if parent in (b'', b'/') or b'\n' in parent:
                continue
            rres2 = box.run('trash-restore', (['--trash-dir', e['td_arg']] if e['kind'] == 'c' else []) + ['--', parent], stdin=b'')
            m = re.search(rb'^\s*\d+ (\S+ \S+|None) ' + re.escape(lp[0]) + rb'$', rres2['stdout'], re.M)
            date_l = parse_date_field(lp[1])
            obs.append({'f': 'meaning', 'reader': 'restore-from-parent', 'content': B(b'Path=' + world.escape(lp[0]) + b'\n'), 'base': B(b'/'),
                        'path': B(lp[0]) if m else NONE, 'date': NONE, 'datechecked': False, 'kind': e['kind'],
                        'orig_rel': is_relative(e['content']),
                        'note': 'restore asked for the parent directory must offer the entry%s; exit %s %s' % (
                            ' (a damaged neighbour is present)' if poisoned else '', rres2['exit'],
                            rres2['stderr'][-200:].decode('utf-8', 'replace'))})
        # rm / empty agreement on a sample
        rnd.shuffle(ents)
        for e in ents[:4]:
            lp = e['list']
            if not lp or lp[0] is None:
                continue
            if not os.path.lexists(e['tdir'] + b'/info/' + e['slot'] + b'.trashinfo'):
                continue       # already purged by an earlier probe of a neighbour
            date_l = parse_date_field(lp[1])
            td = e['td_arg']
            if e['kind'] != 'c':
                # one byte different must not match, the exact path must
                near = lp[0][:-1] + bytes([lp[0][-1] ^ 1 or 2])
                for pat, expect in ((glob_escape(near), False), (glob_escape(lp[0]), True)):
                    box.run('trash-rm', [pat])
                    gone = not os.path.lexists(e['tdir'] + b'/info/' + e['slot'] + b'.trashinfo')
                    obs.append({'f': 'match', 'pat': CP(pat), 'path': CP(lp[0]), 'removed': gone, 'kind': e['kind'],
                                'note': 'rm must match the path list shows'})
                    if gone:
                        break
            elif date_l:
                # empty DAYS: kept at date + DAYS days exactly, purged one second later
                days = rnd.choice([0, 1, 7, 365])
                d0 = datetime.datetime(*date_l) + datetime.timedelta(days=days)
                for delta, _ in ((0, False), (1, True)):
                    nowdt = d0 + datetime.timedelta(seconds=delta)
                    # the neighbours in the same directory are judged by the date trash-list shows for THEM (an entry for
                    # which it shows none is kept, whatever was examined before it)
                    others = [o2 for o2 in ents if o2 is not e and o2['tdir'] == e['tdir'] and o2.get('list') and o2['strict']
                              and os.path.lexists(o2['tdir'] + b'/info/' + o2['slot'] + b'.trashinfo')]
                    box.run('trash-empty', ['--trash-dir', td, str(days)],
                            env={'TRASH_DATE': nowdt.strftime('%Y-%m-%dT%H:%M:%S')})
                    for o2 in others:
                        d2 = parse_date_field(o2['list'][1])
                        obs.append({'f': 'expired', 'content': B(b'DeletionDate=%04d-%02d-%02dT%02d:%02d:%02d\n' % tuple(d2)) if d2 else B(b'Path=/undated\n'),
                                    'now': [nowdt.year, nowdt.month, nowdt.day, nowdt.hour, nowdt.minute, nowdt.second], 'days': days,
                                    'purged': not os.path.lexists(o2['tdir'] + b'/info/' + o2['slot'] + b'.trashinfo'),
                                    'note': 'a neighbour of the probed entry: empty must compare the date list shows for it (%s)' % (
                                        o2['list'][1][:30].decode('latin-1'))})
                    gone = not os.path.lexists(e['tdir'] + b'/info/' + e['slot'] + b'.trashinfo')
                    obs.append({'f': 'expired', 'content': B(b'DeletionDate=%04d-%02d-%02dT%02d:%02d:%02d\n' % tuple(date_l)),
                                'now': [nowdt.year, nowdt.month, nowdt.day, nowdt.hour, nowdt.minute, nowdt.second],
                                'days': days, 'purged': gone, 'note': 'empty must compare the date list shows'})
                    if gone:
                        break
        return obs
    finally:
        box.destroy()


def is_relative(content):
    p, _ = world.parse_info(content)
    return p is not None and not p.startswith(b'/')


def find_by_payload(text, payload_path):
    """trash-list --files prints 'date path -> payload': -> (path bytes, date field bytes) for the record of payload_path"""
    marker = b' -> ' + payload_path + b'\n'
    idx = text.find(marker)
    if idx == -1:
        return None
    # the record starts after the previous record's end, i.e. after the previous ' -> ...files/x\n'
    prev = text.rfind(b'\n', 0, idx)
    start = 0
    for m in re.finditer(rb' -> [^\n]*/files/[^\n]*\n', text[:idx]):
        start = m.end()
    rec = text[start:idx]
    m = re.match(rb'(\d{4}-\d\d-\d\d \d\d:\d\d:\d\d|\?{4}-\?\?-\?\? \?\?:\?\?:\?\?) ', rec)
    if not m:
        return (None, None)
    return (rec[m.end():], m.group(1))


def parse_date_field(b):
    if b is None:
        return None
    d = re.sub(rb'\D', b'', b)
    if len(d) != 14:
        return None
    return [int(d[0:4]), int(d[4:6]), int(d[6:8]), int(d[8:10]), int(d[10:12]), int(d[12:14])]


# ---------------------------------------------------------------------------
# C. the DAYS threshold on calendar dates (C10)

def expiry(seed, n=40):
    rnd = random.Random('expiry|%s' % seed)
    box = Box(seed)
    obs = []
    try:
        kind = rnd.choice(['home', 't2', 'c'])
        tdir = os.fsencode(box.make_tdir(kind))
        days = rnd.choice([0, 1, 2, 7, 30, 365, 366, 36500, rnd.randint(0, 5000)])
        now = datetime.datetime(rnd.randint(1980, 2200), rnd.randint(1, 12), rnd.randint(1, 28), rnd.randint(0, 23),
                                rnd.randint(0, 59), rnd.randint(0, 59))
        if rnd.random() < 0.3:
            now = rnd.choice([datetime.datetime(2024, 3, 1, 0, 0, 0), datetime.datetime(2021, 3, 1, 0, 0, 0),
                              datetime.datetime(2100, 3, 1, 12, 0, 0), datetime.datetime(2000, 1, 1, 0, 0, 0)])
        # the rule is about wall-clock values as recorded (no time zone in a .trashinfo): a time zone with daylight saving,
        # and a "now - DAYS" span that crosses a switch, must change nothing
        tz = None
        if rnd.random() < 0.35:
            tz = rnd.choice(['CET-1CEST,M3.5.0,M10.5.0/3', 'EST5EDT,M3.2.0,M11.1.0', 'NZST-12NZDT,M9.5.0,M4.1.0/3'])
            now = rnd.choice([datetime.datetime(2021, 3, 29, 12, 0, 0), datetime.datetime(2021, 11, 1, 12, 0, 0),
                              datetime.datetime(2021, 3, 15, 12, 0, 0), datetime.datetime(2021, 11, 8, 12, 0, 0),
                              datetime.datetime(2021, 9, 27, 12, 0, 0), datetime.datetime(2021, 4, 5, 12, 0, 0)])
            days = rnd.choice([1, 2, 3, 7])
        try:
            limit = now - datetime.timedelta(days=days)
        except OverflowError:
            return []
        ents = []
        for i in range(n):
            r = rnd.random()
            try:
                if r < 0.5:
                    dt = limit + datetime.timedelta(seconds=rnd.choice([-2, -1, 0, 1, 2, -86400, 86400, -3600, 3599]))
                elif r < 0.8:
                    dt = datetime.datetime(rnd.randint(1, 9999), rnd.randint(1, 12), rnd.randint(1, 28), rnd.randint(0, 23),
                                           rnd.randint(0, 59), rnd.randint(0, 59))
                else:
                    dt = None
            except (OverflowError, ValueError):
                dt = None
            if dt is not None:
                dl = b'DeletionDate=' + ('%04d-%02d-%02dT%02d:%02d:%02d' % (dt.year, dt.month, dt.day, dt.hour, dt.minute, dt.second)).encode()
                extra = rnd.random()
                if extra < 0.1:
                    dl = dl + b'\nDeletionDate=1970-01-01T00:00:00'     # duplicated key: the first one counts
            else:
                dl = rnd.choice([b'DeletionDate=never', b'', b'DeletionDate=2020-02-30T00:00:00', b'DeletionDate=',
                                 b'deletiondate=1970-01-01T00:00:00', b'DeletionDate=1970-01-01'])
            if dt is None and rnd.random() < 0.5:
                dl = dl + b'\nDeletionDate=1971-02-03T04:05:06'      # the FIRST DeletionDate line counts, also when malformed
            content = b'[Trash Info]\nPath=/x/e%d\n' % i + dl + b'\n'
            slot = b'e%d' % i
            with open(tdir + b'/info/' + slot + b'.trashinfo', 'wb') as f:
                f.write(content)
            with open(tdir + b'/files/' + slot, 'wb') as f:
                f.write(b'p%d' % i)
            ents.append((slot, content))
        argv = (['--trash-dir', os.fsdecode(tdir)] if kind == 'c' else []) + [str(days)]
        nows = now.strftime('%Y-%m-%dT%H:%M:%S')
        if now.year < 1000:
            nows = '%04d' % now.year + nows[len(str(now.year)):]
        res = box.run('trash-empty', argv, env=dict({'TRASH_DATE': nows}, **({'TZ': tz} if tz else {})))
        for slot, content in ents:
            info = os.path.lexists(tdir + b'/info/' + slot + b'.trashinfo')
            pay = os.path.lexists(tdir + b'/files/' + slot)
            if info != pay:
                obs.append({'f': 'expired', 'content': B(content), 'now': [0, 0, 0, 0, 0, 0], 'days': days, 'purged': True,
                            'note': 'entry not removed whole: info %s payload %s' % (info, pay), 'broken': True})
                continue
            obs.append({'f': 'expired', 'content': B(content),
                        'now': [now.year, now.month, now.day, now.hour, now.minute, now.second], 'days': days,
                        'purged': not info, 'note': 'exit %s %s' % (res['exit'], res['stderr'][-100:].decode('utf-8', 'replace'))})
        return obs
    finally:
        box.destroy()


# ---------------------------------------------------------------------------
# D. patterns of trash-rm (C12)

def rand_pattern(rnd, names):
    """a pattern over literals, *, ?, [...] (with !, ranges) and a possibly unclosed [, built around a real name"""
    base = rnd.choice(names)
    s = os.fsdecode(base)
    out = []
    i = 0
    while i < len(s):
        c = s[i]
        r = rnd.random()
        if r < 0.12:
            out.append('*')
            i += rnd.choice([0, 1, 2, len(s)])
        elif r < 0.22:
            out.append('?')
            i += 1
        elif r < 0.30 and c not in ']\\^![-' and c.isprintable():
            alt = rnd.choice('abcxyzABC019')
            form = rnd.choice(['[%s%s]' % (c, alt), '[!%s]' % alt, '[%s-%s]' % (c, c), '[%s]' % c])
            if c in '!-':
                form = '[x%s]' % c
            out.append(form)
            i += 1
        elif c in '*?[':
            out.append('[' + c + ']' if rnd.random() < 0.7 else c)
            i += 1
        else:
            out.append(c)
            i += 1
    p = ''.join(out)
    if rnd.random() < 0.1:
        p = p + rnd.choice(['*', '?', 'x', '[', '[a'])
    if rnd.random() < 0.1:
        p = p.swapcase()
    return p or '*'


NAME_SETS = [
    [b'foo', b'Foo', b'FOO', b'foobar', b'fo', b'f*o', b'f?o', b'[foo]', b'foo]', b'foo.txt', b'.foo', b'bar'],
    [b'a', b'b', b'ab', b'a b', b'a*', b'*', b'?', b'[', b']', b'[a]', b'a-b', b'!a', b'-'],
    [b'caf\xc3\xa9', b'cafe', b'caf', b'\xe6\x97\xa5\xe6\x9c\xac', b'\xe6\x97\xa5', b'x\ny', b'x', b'y', b'x y', b'%41', b'A'],
]


def rm_patterns(seed):
    rnd = random.Random('rm|%s' % seed)
    box = Box(seed)
    obs = []
    try:
        names = rnd.choice(NAME_SETS)
        rootb = os.fsencode(box.root)
        ents = []
        for i, nm in enumerate(names):
            kind = rnd.choice(['home', 't2', 't1'])
            tdir = os.fsencode(box.make_tdir(kind))
            dirp = rnd.choice([b'/m1/d', b'/m1', b'/m1/d/e']) if kind != 'home' else rnd.choice([b'/d', b'', b'/m1/d', b'/d/e'])
            absp = rootb + dirp + b'/' + nm
            if kind == 'home':
                pv = absp
            else:
                pv = absp[len(rootb + b'/m1') + 1:]
            slot = b's%d' % i
            with open(tdir + b'/info/' + slot + b'.trashinfo', 'wb') as f:
                f.write(world.format_info(pv, '2020-01-01T00:00:00'))
            with open(tdir + b'/files/' + slot, 'wb') as f:
                f.write(b'x')
            ents.append({'abs': absp, 'tdir': tdir, 'slot': slot})
        if rnd.random() < 0.3:
            # a full-path pattern
            e = rnd.choice(ents)
            r = rnd.random()
            if r < 0.4:
                pat = os.fsdecode(os.path.dirname(e['abs'])) + '/' + rand_pattern(rnd, [os.path.basename(e['abs'])])
            elif r < 0.6:
                pat = '/*' + rand_pattern(rnd, [os.path.basename(e['abs'])])
            else:
                # metacharacters anywhere in the path, also in the part that names the volume
                pat = '/' + rand_pattern(rnd, [e['abs'][1:]])
        else:
            pat = rand_pattern(rnd, names)
            if pat.startswith('/'):
                pat = '?' + pat[1:]
        res = box.run('trash-rm', [pat])
        for e in ents:
            info = os.path.lexists(e['tdir'] + b'/info/' + e['slot'] + b'.trashinfo')
            pay = os.path.lexists(e['tdir'] + b'/files/' + e['slot'])
            o = {'f': 'match', 'pat': [ord(c) for c in pat], 'path': CP(e['abs']), 'removed': not info,
                 'note': 'exit %s %s' % (res['exit'], res['stderr'][-100:].decode('utf-8', 'replace'))}
            if info != pay:
                o['broken'] = True
                o['note'] = 'entry not removed whole'
                o['f'] = 'broken'
            obs.append(o)
        return obs
    finally:
        box.destroy()


# ---------------------------------------------------------------------------
# E. replies, scope and order of trash-restore (C13)

REPLY_ALPHABET = '0123459-, +x'


def rand_reply(rnd, n):
    r = rnd.random()
    if r < 0.45:
        # mostly well-formed
        parts = []
        for _ in range(rnd.choice([1, 1, 2, 3])):
            a = rnd.randint(0, max(0, n + 1))
            if rnd.random() < 0.4:
                b = rnd.randint(0, max(0, n + 1))
                parts.append('%s-%s' % (deco(rnd, a), deco(rnd, b)))
            else:
                parts.append(deco(rnd, a))
        return ','.join(parts)
    ln = rnd.choice([1, 2, 3, 4, 5, 6, 8])
    return ''.join(rnd.choice(REPLY_ALPHABET) for _ in range(ln)) or '0'


def deco(rnd, k):
    s = str(k)
    r = rnd.random()
    if r < 0.15:
        s = ' ' + s
    elif r < 0.3:
        s = s + ' '
    elif r < 0.4:
        s = '+' + s
    elif r < 0.5:
        s = '0' + s
    elif r < 0.53:
        s = '9' * 12
    return s


def restore_replies(seed):
    rnd = random.Random('reply|%s' % seed)
    box = Box(seed)
    obs = []
    try:
        n = rnd.choice([0, 1, 2, 3, 4, 5])
        rootb = os.fsencode(box.root)
        tdir = os.fsencode(box.make_tdir('home'))
        ents = []
        for i in range(n):
            dest = rootb + b'/r/d%d/n%d' % (i % 2, i)
            slot = b's%d' % i
            with open(tdir + b'/info/' + slot + b'.trashinfo', 'wb') as f:
                f.write(world.format_info(dest, '2020-01-0%dT00:00:0%d' % (1 + i % 3, i)))
            with open(tdir + b'/files/' + slot, 'wb') as f:
                f.write(b'payload%d' % i)
            ents.append({'dest': dest, 'slot': slot})
        reply = rand_reply(rnd, n)
        sort = rnd.choice(['date', 'path', 'none'])
        res = box.run('trash-restore', ['--sort', sort, '/'], stdin=reply.encode() + b'\n', permute=True)
        if n == 0:
            return []
        # index -> entry from the real listing
        order = {}
        for m in re.finditer(rb'^\s*(\d+) \S+ \S+ (.*)$', res['stdout'], re.M):
            for e in ents:
                if m.group(2) == e['dest']:
                    order[int(m.group(1))] = e
        restored = [k for k, e in order.items() if os.path.lexists(e['dest'])]
        consistent = all(os.path.lexists(e['dest']) != os.path.lexists(tdir + b'/info/' + e['slot'] + b'.trashinfo') for e in ents)
        if len(order) != n or not consistent:
            obs.append({'f': 'broken', 'note': 'listing/indexes inconsistent: %r %r' % (res['stdout'][-300:], reply)})
            return obs
        if reply.strip() == '' or reply == '':
            return []          # empty reply: nothing restored, exit 0 (checked at command level)
        if restored or res['exit'] == 0:
            obs.append({'f': 'denote', 'reply': [ord(c) for c in reply], 'n': n, 'restored': sorted(restored) if restored else [],
                        'note': 'exit %s' % res['exit']})
            if not restored:
                # a valid reply that denotes nothing (reversed range): restored = []; TLC cannot compare <<>> via JSON [] with sets? it can.
                pass
        else:
            obs.append({'f': 'denote', 'reply': [ord(c) for c in reply], 'n': n, 'restored': NONE,
                        'note': 'exit %s %s' % (res['exit'], res['stderr'][-80:].decode('utf-8', 'replace'))})
        return obs
    finally:
        box.destroy()


SCOPE_NAMES = [b'foo', b'foobar', b'foo bar', b'foo.d', b'fo', b'f', b'foo\nx']


def restore_scope(seed):
    rnd = random.Random('scope|%s' % seed)
    box = Box(seed)
    obs = []
    try:
        rootb = os.fsencode(box.root)
        tdir = os.fsencode(box.make_tdir('home'))
        td2 = os.fsencode(box.make_tdir('t2'))
        locs = []
        for i in range(rnd.choice([3, 5, 8])):
            comps = [rnd.choice(SCOPE_NAMES) for _ in range(rnd.choice([1, 2, 3]))]
            vol = rnd.choice(['R', 'V1'])
            top = rootb + (b'/a' if vol == 'R' else b'/m1')
            absp = top + b'/' + b'/'.join(comps)
            t = tdir if vol == 'R' else td2
            pv = absp if vol == 'R' else absp[len(rootb + b'/m1') + 1:]
            slot = b's%d' % i
            with open(t + b'/info/' + slot + b'.trashinfo', 'wb') as f:
                f.write(world.format_info(pv, '2020-01-0%dT00:00:0%d' % (1 + i % 3, i % 10)))
            with open(t + b'/files/' + slot, 'wb') as f:
                f.write(b'x')
            locs.append(absp)
        # a directory to restore from: a prefix of some location, possibly a sibling-prefix string
        l = rnd.choice(locs)
        comps = l[len(rootb) + 1:].split(b'/')
        k = rnd.randint(1, len(comps))
        dirp = rootb + b'/' + b'/'.join(comps[:k])
        if rnd.random() < 0.3:
            dirp = dirp[:-1] if len(dirp) > len(rootb) + 2 else dirp     # a string prefix that is not a component prefix
        if rnd.random() < 0.1:
            dirp = b'/'
        sort = rnd.choice(['date', 'path', 'none'])
        if rnd.random() < 0.3:
            # since the entries were trashed, the directory they came from has been moved elsewhere and a symbolic link left in
            # its place: the recorded locations (and the request, spelled as ever) are what counts, not where the link leads now
            try:
                os.makedirs(rootb + b'/a.moved/' + rnd.choice(SCOPE_NAMES))
                os.symlink(b'a.moved', rootb + b'/a')
            except OSError:
                pass
        res = box.run('trash-restore', ['--sort', sort, dirp], stdin=b'')
        known = {p: 1 for p in locs}
        shown = parse_known(res['stdout'], known)
        for p in set(locs):
            obs.append({'f': 'scope', 'loc': CP(p), 'dir': CP(dirp.rstrip(b'/') or b'/'), 'listed': p in shown})
        if sort == 'path':
            seq = []
            for m in re.finditer(rb'^\s*(\d+) \S+ \S+ ', res['stdout'], re.M):
                pass
            # order of appearance of the known paths
            pos = []
            for p in set(locs):
                for m in re.finditer(re.escape(p + b'\n'), res['stdout']):
                    pos.append((m.start(), p))
            pos.sort()
            seq = [CP(p) for _, p in pos if p in shown]
            dedup = []
            for s in seq:
                dedup.append(s)
            if len(dedup) >= 2:
                obs.append({'f': 'pathorder', 'paths': dedup})
        return obs
    finally:
        box.destroy()


# ---------------------------------------------------------------------------
# F. where trash-restore puts an entry written by another implementation (C20: "the path trash-list prints is the path
#    trash-restore restores it to")

def foreign_restore(seed, n=6, occupied=False):
    rnd = random.Random('frestore|%s' % seed)
    obs = []
    for i in range(n):
        box = Box('%s-%d' % (seed, i))
        try:
            rootb = os.fsencode(box.root)
            kind = rnd.choice(['home', 't1', 't2', 'c'])
            tdir = os.fsencode(box.make_tdir(kind))
            top = rootb + b'/m1' if kind != 'home' else (rootb if rnd.random() < 0.5 else rootb + b'/m1')
            dirs = [b'o%d' % i] + rand_dirs(rnd, depth=rnd.choice([0, 1, 2]))
            name = rand_name(rnd, maxlen=40, utf8_only=True)
            tail = rnd.choice([b'', b'', b'/', b'//'])               # other writers record directories with a trailing slash
            absp = top + b'/' + b'/'.join(dirs + [name]) + tail
            relp = (b'/'.join(dirs + [name]) + tail) if kind != 'home' else None
            if occupied and rnd.random() < 0.3:
                # a Path that goes through a directory that does NOT exist and back ('old/../name'): whatever the command makes
                # of it, the file that lives at the location the rest of the path designates must not be replaced
                absp = top + b'/' + b'/'.join(dirs + [b'no-such-dir', b'..', name])
                relp = (b'/'.join(dirs + [b'no-such-dir', b'..', name])) if kind != 'home' else None
                tail = b''
            content, strict = foreign_contents(rnd, absp, relp)
            if not strict:
                continue
            slot = rand_name(rnd, maxlen=20, utf8_only=True)
            if slot.endswith(b'.trashinfo') or slot.startswith(b'.'):
                slot = b's' + slot
            marker = b'marker-%d-%d' % (seed, i)
            as_dir = rnd.random() < 0.5
            pay = tdir + b'/files/' + slot
            if as_dir:
                os.mkdir(pay)
                with open(pay + b'/inside', 'wb') as f:
                    f.write(marker)
            else:
                with open(pay, 'wb') as f:
                    f.write(marker)
            with open(tdir + b'/info/' + slot + b'.trashinfo', 'wb') as f:
                f.write(content)
            occ = None
            if occupied:
                # something already lives at the original location (C06): nothing may be restored, nothing may change there
                dest = os.path.normpath(absp.rstrip(b'/')) if b'/no-such-dir/../' in absp else absp.rstrip(b'/')
                os.makedirs(os.path.dirname(dest), exist_ok=True)
                occ = rnd.choice(['file', 'dlink', 'flink', 'dir', 'emptydir', 'fifo', 'socket'])
                if occ == 'file':
                    with open(dest, 'wb') as f:
                        f.write(b'occupant')
                elif occ == 'dlink':
                    os.symlink(b'/nonexistent/occupant', dest)
                elif occ == 'fifo':
                    os.mkfifo(dest)
                elif occ == 'socket':
                    import socket as _socket
                    sk = _socket.socket(_socket.AF_UNIX)
                    try:
                        cwd0 = os.getcwd()
                        os.chdir(os.path.dirname(dest))          # sun_path is short: bind by base name
                        try:
                            sk.bind(os.path.basename(dest)[:90])
                        finally:
                            os.chdir(cwd0)
                    except OSError:
                        os.mkfifo(dest)
                    finally:
                        sk.close()
                    if not os.path.lexists(dest):
                        os.mkfifo(dest)
                elif occ == 'flink':
                    with open(dest + b'.target', 'wb') as f:
                        f.write(b'occupant target')
                    os.symlink(dest + b'.target', dest)
                else:
                    os.mkdir(dest)
                    if occ == 'dir':
                        with open(dest + b'/occupant', 'wb') as f:
                            f.write(b'occupant')
                # what must stay as it is: the occupant itself (and, for a link to a file, that file)
                occ_state = lambda: (world.digest_of_sub(world.snapshot_sub(dest)) if os.path.lexists(dest) else None,
                                     open(dest + b'.target', 'rb').read() if os.path.lexists(dest + b'.target') else None)
                before = occ_state()
            args = (['--trash-dir', os.fsdecode(tdir)] if kind == 'c' else []) + ['/']
            alias = None
            if not occupied and rnd.random() < 0.3:
                # a malformed neighbour (C19): an info file that is a symbolic link to this entry's own info file and has no
                # payload.  It prints like the entry; the entry itself is still offered, under one of the two indices.
                alias = tdir + b'/info/' + rnd.choice([b'0alias', b'zalias']) + b'.trashinfo'
                try:
                    os.symlink(slot + b'.trashinfo', alias)
                except OSError:
                    alias = None
            res = box.run('trash-restore', args, stdin=b'0\n')
            if alias is not None and os.path.lexists(pay):
                res = box.run('trash-restore', args, stdin=b'1\n')      # index 0 was the payload-less alias
            landed = None
            for dp, dn, fn in os.walk(rootb):
                for x in fn:
                    fp = dp + b'/' + x
                    try:
                        if os.path.getsize(fp) == len(marker) and open(fp, 'rb').read() == marker:
                            landed = os.path.dirname(fp) if as_dir else fp
                    except OSError:
                        pass
            if landed is not None and landed.startswith(tdir + b'/'):
                landed = None          # still in the trash
            base = B(os.fsencode(box.tbase(kind))) if kind != 'home' else B(b'/')
            if kind == 'home' and is_relative(content):
                continue               # known finding: relative Path in the home trash
            o = {'f': 'restored', 'content': B(content), 'base': base, 'landed': B(landed) if landed is not None else NONE,
                 'kind': kind, 'occupied': bool(occupied), 'intact': True, 'failed': res['exit'] != 0,
                 'note': 'exit %s %s' % (res['exit'], res['stderr'][-120:].decode('utf-8', 'replace'))}
            if occupied:
                o['occupant'] = occ
                o['intact'] = (occ_state() == before and
                               os.path.lexists(pay) and os.path.lexists(tdir + b'/info/' + slot + b'.trashinfo'))
            obs.append(o)
        finally:
            box.destroy()
    return obs


# ---------------------------------------------------------------------------
# driver

KINDS = {'putrb': put_and_readback, 'foreign': foreign_readers, 'expiry': expiry, 'rm': rm_patterns,
         'reply': restore_replies, 'scope': restore_scope, 'frestore': foreign_restore, 'timed': timed_put}


def _job(args):
    kind, seed, kw = args
    try:
        runner.prepare()
        return ('ok', KINDS[kind](seed, **kw))
    except Exception:
        import traceback
        return ('error', traceback.format_exc())


def collect(kind, seeds, kw=None, procs=16):
    from harness import tt
    jobs = [(kind, s, kw or {}) for s in seeds]
    if len(jobs) < 3:
        return [_job(j) for j in jobs]
    return tt.rmap(_job, jobs, procs, max(1, min(8, len(jobs) // (procs * 4) or 1)), timeout=600)

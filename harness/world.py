"""Sandbox world: layout of the abstract state of spec/Trash.tla on a real
file system, materialisation of an abstract state, full recursive snapshots and
the projection of a sandbox back to an abstract state.

Nothing here decides what a command should do: it only builds states and reads
them back.  The .trashinfo encoder / reader used here are the harness's own
(FreeDesktop spec rule) and are themselves checked against spec/TrashInfo.tla
by the function-observation checks.
"""
from __future__ import annotations

import datetime
import hashlib
import json
import os
import random
import shutil
import stat
import tempfile

REGIONS = ['R', 'H', 'V1', 'V2']
RPATH = {'R': [], 'H': ['home'], 'V1': ['m1'], 'V2': ['m1', 'n2']}
RPARENT = {'R': None, 'H': 'R', 'V1': 'R', 'V2': 'V1'}
DIRS = ['top', 'd', 'de']
DPATH = {'top': [], 'd': ['d'], 'de': ['d', 'e']}
DANC = {'top': [], 'd': ['d'], 'de': ['d', 'de']}
NAMES = ['a', 'b']
DAYTICKS = 3
NODATE = -1
UNRESERVED = set(b'ABCDEFGHIJKLMNOPQRSTUVWXYZabcdefghijklmnopqrstuvwxyz0123456789-._~')

# components of 242 bytes, 723 characters each once encoded: 7 of them = about 5000 characters, 12 = about 8700 (a legal path of
# 3000 bytes whose percent-encoding is longer than 8192 characters)
DEEP_PARTS = ['%d-' % i + '\u044b\u0416 ' * 48 for i in range(12)]
SHM = '/dev/shm' if os.path.isdir('/dev/shm') else tempfile.gettempdir()


def tdir_ids():
    return (['home'] + ['t1:' + r for r in REGIONS] + ['t2:' + r for r in REGIONS] + ['c:' + r for r in REGIONS] +
            ['lhome', 'ohome'] + ['o1:' + r for r in REGIONS] + ['o2:' + r for r in REGIONS])


def tkind(t):
    return t if t in ('home', 'lhome', 'ohome') else {'t1': 't1', 't2': 't2', 'c': 'c', 'o1': 'o1', 'o2': 'o2'}[t.split(':')[0]]


def treg(t):
    return 'H' if t in ('home', 'lhome') else 'R' if t == 'ohome' else t.split(':')[1]


# ---------------------------------------------------------------------------
# .trashinfo codec of the harness (spec rule)

def escape(b):
    out = bytearray()
    for c in b:
        if c in UNRESERVED or c == 0x2f:
            out.append(c)
        else:
            out += b'%%%02X' % c
    return bytes(out)


def unescape(b):
    out = bytearray()
    i = 0
    hexd = b'0123456789abcdefABCDEF'
    while i < len(b):
        if b[i] == 0x25 and i + 2 < len(b) and b[i + 1] in hexd and b[i + 2] in hexd:
            out.append(int(b[i + 1:i + 3], 16))
            i += 3
        else:
            out.append(b[i])
            i += 1
    return bytes(out)


def parse_info(content):
    """-> (path bytes or None, date string bytes or None): first Path= / DeletionDate= lines."""
    path = date = None
    for line in content.split(b'\n'):
        if path is None and line.startswith(b'Path='):
            path = unescape(line[5:])
        if date is None and line.startswith(b'DeletionDate='):
            date = line[13:]
    return path, date


def format_info(path_bytes, date_str):
    s = b'[Trash Info]\nPath=' + escape(path_bytes) + b'\n'
    if date_str is not None:
        s += b'DeletionDate=' + date_str.encode() + b'\n'
    return s


# ---------------------------------------------------------------------------
# concretisation

NAME_POOL = [
    (b'foo', b'foobar'), (b'a', b'b'), (b'-dash', b'--x'), (b'with space', b' lead'),
    (b'new\nline', b'cr\rhere'), (b'100%', b'%41'), (b'plus+', b'eq=x'), (b'[br', b'st*r'),
    (b'q?', b'#hash'), (b'caf\xc3\xa9', b'\xe6\x97\xa5\xe6\x9c\xac'), (b'x.trashinfo', b'y.trashinfo.trashinfo'),
    (b'Foo', b'foo'), (b'a_1', b'a'), (b'tab\there', b"quote'\""), (b'L' * 200, b'M' * 120),
    (b'.hidden', b'..dots'), (b'tilde~', b'back\\slash'), (b'notes\n', b'x\n\n'), (b'.env', b'.config.d'), (b'...', b'....'),
    # valid UTF-8 that is not in normal form C: the composed spelling would be another name
    (b'cafe\xcc\x81', b'caf\xc3\xa9'), (b'\xe2\x84\xab', b'\xc3\x85'),
]
NAME_POOL_NONUTF8 = [(b'bad\xff', b'ok'), (b'\xfe\xfd', b'\xc3')]

FILE_MODES = [0o644, 0o600, 0o755, 0o444, 0o640]
T0_POOL = [(2020, 2, 28, 23, 59, 58), (2023, 12, 31, 23, 59, 58), (2001, 1, 1, 0, 0, 0), (2024, 2, 29, 12, 0, 0),
           (1999, 12, 30, 23, 59, 59), (2038, 1, 19, 3, 14, 6)]


class Conc(object):
    """One concretisation of the abstract universe, chosen by seed."""

    def __init__(self, seed=0, names=None, uid=None, t0=None, variants=None, nonutf8=False, xdg_rel=False, deep=None, td_link=None):
        rnd = random.Random('conc|%s' % seed)
        self.seed = seed
        pool = NAME_POOL_NONUTF8 if nonutf8 else NAME_POOL
        pair = names if names is not None else pool[seed % len(pool)] if seed < len(pool) * 2 else rnd.choice(pool)
        if names is None and rnd.random() < 0.5 and seed >= len(pool):
            pair = (pair[1], pair[0])
        self.names = {'a': pair[0], 'b': pair[1]}
        self.uid = uid if uid is not None else rnd.choice([0, 1000, 1000, 4242])
        # the other user of the password database (--all-users); 100 / 10001: one uid is a prefix of the other as text
        self.uid2 = random.Random('uid2|%s' % seed).choice([u for u in (0, 1001, 65534, 100, 10001) if u != self.uid])
        self.t0 = t0 if t0 is not None else T0_POOL[seed % len(T0_POOL)]
        self.variant_seed = rnd.randrange(1 << 30) if variants is None else variants
        self.umask = rnd.choice([0o022, 0o022, 0o000, 0o077])
        self.clock_via_env = rnd.random() < 0.5
        self.xdg_link = rnd.random() < 0.3        # $XDG_DATA_HOME is a symlink to a directory (trash dir reached through a link)
        # TRASH_VOLUMES names the volume m1 as <root>/tvdecoy/L/../m1, L a link to a directory directly under the root: the same
        # volume for the file system; for whoever collapses '..' lexically it is <root>/tvdecoy/m1, which holds a populated
        # $uid below a .Trash WITHOUT the sticky bit
        self.tv_spelled = random.Random('tvspell|%s' % seed).random() < 0.12
        self.deep = (rnd.random() < 0.1) if deep is None else deep     # the sandbox lives under long non-ASCII directories
        self.deep_n = random.Random('deepn|%s' % seed).choice([7, 12, 12])
        # --trash-dir on a non-root volume is always given through a symlink that lives on the root volume (every command
        # gets the same spelling): relative Path= values are then relative to the volume of the path as spelled
        self.td_link = (rnd.random() < 0.12) if td_link is None else td_link
        if os.environ.get('VERIF_FORCE_TDLINK'):
            self.td_link = True            # debugging aid: every world uses the linked spelling

    def name(self, n):
        return self.names[n]

    def rname(self, b):
        for k, v in self.names.items():
            if v == b:
                return k
        return None

    def tick_to_dt(self, k):
        base = datetime.datetime(*self.t0)
        return base + datetime.timedelta(days=k // DAYTICKS, seconds=k % DAYTICKS)

    def dt_to_tick(self, dt):
        base = datetime.datetime(*self.t0)
        delta = dt - base
        secs = delta.days * 86400 + delta.seconds
        days, rem = divmod(secs, 86400)
        if 0 <= rem < DAYTICKS:
            return days * DAYTICKS + rem
        return None

    def date_str(self, k):
        return self.tick_to_dt(k).strftime('%Y-%m-%dT%H:%M:%S')


# ---------------------------------------------------------------------------
# snapshot

def snap_entry(path):
    st = os.lstat(path)
    m = st.st_mode
    if stat.S_ISLNK(m):
        return ('l', 0, 0, os.readlink(path), 0)    # a symlink's own mtime is not compared (see DESIGN 7)
    if stat.S_ISDIR(m):
        return ('d', stat.S_IMODE(m), 0, '', st.st_mtime_ns)
    if stat.S_ISREG(m):
        h = hashlib.sha256()
        try:
            with open(path, 'rb') as f:
                while True:
                    b = f.read(1 << 16)
                    if not b:
                        break
                    h.update(b)
            d = h.hexdigest()[:16]
        except OSError:
            d = 'unreadable'
        return ('f', stat.S_IMODE(m), st.st_size, d, st.st_mtime_ns)
    return ('o', stat.S_IMODE(m), 0, '', st.st_mtime_ns)


def snapshot(root):
    """{relative path (bytes) : entry tuple} for everything under root (root itself = b'.')."""
    res = {}
    rootb = os.fsencode(root)
    stack = [b'.']
    while stack:
        rel = stack.pop()
        p = rootb if rel == b'.' else rootb + b'/' + rel
        e = snap_entry(p)
        res[rel] = e
        if e[0] == 'd':
            try:
                for n in os.listdir(p):
                    stack.append(n if rel == b'.' else rel + b'/' + n)
            except OSError:
                pass
    return res


def subtree_digest(snap, rel):
    """digest of the entry at rel and everything below (relative names, all attributes)."""
    h = hashlib.sha256()
    pre = rel + b'/'
    keys = sorted(k for k in snap if k == rel or k.startswith(pre))
    for k in keys:
        h.update(repr((k[len(rel):], snap[k])).encode())
    return h.hexdigest()[:20]


# ---------------------------------------------------------------------------
# the sandbox

class World(object):
    def __init__(self, conc, cfg, parent=None):
        self.conc = conc
        self.cfg = cfg
        self.base = tempfile.mkdtemp(prefix='vs-', dir=parent or SHM)
        # a deep sandbox: every absolute path is long and non-ASCII, so that the percent-encoded Path= line of a home-trash
        # entry is several times PATH_MAX/NAME_MAX sized buffers (about 5000 characters) while the path itself is legal
        self.root = os.path.join(self.base, *(DEEP_PARTS[:getattr(conc, 'deep_n', 7)] + ['w'])) if getattr(conc, 'deep', False) else os.path.join(self.base, 'w')
        os.makedirs(self.root)
        self.digest2obj = {}
        self.obj_info = {}
        self.slots = {}          # (t, slotname bytes) -> ('item', o) | ('stray', id) | ('junk', id) | ('orph', o)
        self.baseline = None
        self.next_mtime = 1500000000
        self.created_outside = set()
        self.virtual_tex = set()

    def destroy(self):
        def onerr(func, path, exc):
            try:
                os.chmod(os.path.dirname(path), 0o700)
                os.chmod(path, 0o700)
                func(path)
            except OSError:
                pass
        shutil.rmtree(self.base, onerror=onerr)

    # ---- paths ---------------------------------------------------------------
    def rpath(self, r):
        return os.path.join(self.root, *RPATH[r]) if RPATH[r] else self.root

    def dpath(self, r, d):
        return os.path.join(self.rpath(r), *DPATH[d]) if DPATH[d] else self.rpath(r)

    def lpath(self, r, d, n):
        return os.fsencode(self.dpath(r, d)) + b'/' + self.conc.name(n)

    def mounts(self):
        return [self.rpath(r) for r in self.cfg['mounted']]

    def home(self):
        return os.path.join(self.root, 'home', 'u')

    def vol_of_region(self, r):
        while r not in self.cfg['mounted']:
            r = RPARENT[r]
        return r

    def ohome(self):
        return os.path.join(self.root, 'ohome', 'o')

    def pwall(self):
        """the password database the commands see (--all-users): [name, uid, home directory]"""
        return [['nobody-here', 65533, '/nonexistent'], ['u', self.conc.uid, self.home()], ['o', self.conc.uid2, self.ohome()],
                ['ghost', 61234, os.path.join(self.root, 'ohome', 'never-created')]]

    def tdirs(self):
        """the trash directory ids of this world: 'lhome' ($HOME/.local/share/Trash beside an $XDG_DATA_HOME that points
        elsewhere) is 'home' itself unless XDG_DATA_HOME is set"""
        return [t for t in tdir_ids() if not (t == 'lhome' and self.cfg['xdg'] != 'set')]

    def tpath(self, t):
        k = tkind(t)
        if k == 'home':
            if self.cfg['xdg'] == 'set':
                return os.path.join(self.home(), 'xdg', 'Trash')
            return os.path.join(self.home(), '.local', 'share', 'Trash')
        if k == 'lhome':
            return os.path.join(self.home(), '.local', 'share', 'Trash')
        if k == 'ohome':
            return os.path.join(self.ohome(), '.local', 'share', 'Trash')
        r = treg(t)
        if k in ('t1', 'o1'):
            return os.path.join(self.rpath(r), '.Trash', str(self.conc.uid if k == 't1' else self.conc.uid2))
        if k in ('t2', 'o2'):
            return os.path.join(self.rpath(r), '.Trash-%d' % (self.conc.uid if k == 't2' else self.conc.uid2))
        return os.path.join(self.rpath(r), 'ct')

    def tpath_real(self, t):
        """where the trash directory really lives ($topdir/.Trash may be a symlink)"""
        p = self.tpath(t)
        if tkind(t) in ('t1', 'o1') and self.cfg['top'].get(treg(t), 'absent').startswith('link'):
            return os.path.join(self.rpath(treg(t)), '.realtrash', str(self.conc.uid if tkind(t) == 't1' else self.conc.uid2))
        if tkind(t) == 'home' and self.cfg.get('hlink', 'none') != 'none':
            return os.path.join(self.rpath(self.cfg['hlink']), '.xdg-remote', 'Trash')
        if tkind(t) == 'home' and self.cfg['xdg'] == 'set' and self.conc.xdg_link:
            return os.path.join(self.home(), 'realxdg', 'Trash')
        return p

    def td_linked(self, t):
        """is the custom trash directory t handed to the commands through the symlink on the root volume?"""
        return bool(getattr(self.conc, 'td_link', False)) and tkind(t) == 'c' and self.vol_of_region(treg(t)) != 'R'

    def td_arg(self, t):
        """the --trash-dir argument for t"""
        if self.td_linked(t):
            return os.path.join(self.root, 'tdl', 'to-' + treg(t), 'ct')
        return self.tpath(t)

    def make_td_links(self):
        made = False
        for r in REGIONS:
            t = 'c:' + r
            if self.td_linked(t) and os.path.isdir(self.rpath(r)):
                ln = os.path.join(self.root, 'tdl', 'to-' + r)
                if not os.path.lexists(ln):
                    os.makedirs(os.path.dirname(ln), exist_ok=True)
                    os.symlink(self.rpath(r), ln)
                    made = True
        return made

    def tbase(self, t):
        """directory that relative Path= values are relative to (None: absolute paths are written)"""
        k = tkind(t)
        if k in ('home', 'lhome', 'ohome'):
            return None
        if self.td_linked(t):
            return self.rpath('R')         # the volume of the path as spelled (the link lives on the root volume)
        return self.rpath(self.vol_of_region(treg(t)))

    def env(self, extra=None, script=None):
        e = {'PATH': '/usr/bin:/bin', 'COLUMNS': '80'}
        if self.cfg['home'] == 'set':
            e['HOME'] = self.home()
        if self.cfg['xdg'] == 'set':
            e['XDG_DATA_HOME'] = os.path.join(self.home(), 'xdg')
        elif self.cfg['xdg'] == 'empty':
            e['XDG_DATA_HOME'] = ''
        e['TRASH_PUT_FAKE_UID_FOR_TESTING'] = str(self.conc.uid)
        # the volumes may also be named by the environment (same set as the mount table, any order, empty elements
        # ignored); an empty value means "not set"
        rr = random.Random('trashvolumes|%s' % self.conc.variant_seed)
        v = rr.random()
        if v < 0.2:
            ms = list(self.mounts())
            rr.shuffle(ms)
            e['TRASH_VOLUMES'] = ':'.join(ms) + rr.choice(['', ':', '::'])
        elif v < 0.3:
            e['TRASH_VOLUMES'] = ''
        if getattr(self, 'tv_alias', None) and script in ('trash-list', 'trash-empty'):
            # (not for trash-restore and trash-rm: what they offer / match is compared with the request as strings)
            e['TRASH_VOLUMES'] = ':'.join(self.tv_alias[1] if m == self.tv_alias[0] else m for m in self.mounts())
        if extra:
            e.update(extra)
        return e

    def shim_cfg(self, **kw):
        c = {'root': self.root, 'mounts': self.mounts(), 'uid': self.conc.uid, 'seed': self.conc.seed, 'pwall': self.pwall()}
        c.update(kw)
        return c

    # ---- object creation --------------------------------------------------------
    def _mt(self):
        self.next_mtime += 977
        return self.next_mtime

    def make_object(self, o, kind, pathb, variant=None, in_trash=False):
        """create object o of the abstract kind at pathb (bytes); returns its digest."""
        rnd = random.Random('obj|%s|%s' % (self.conc.variant_seed, o))
        v = variant if variant is not None else rnd.randrange(42)
        tag = ('OBJ-%d-' % o).encode()
        if kind == 'file':
            size = [0, 7, 300, 70000, 1, 4096][v % 6]
            with open(pathb, 'wb') as f:
                if size:
                    f.write((tag * (size // len(tag) + 1))[:size])
            os.chmod(pathb, FILE_MODES[(v + o) % len(FILE_MODES)])
            os.utime(pathb, (self._mt(), self._mt()))
            sub = 'empty' if size == 0 else 'regular'
        elif kind == 'dir':
            os.mkdir(pathb)
            with open(pathb + b'/f1', 'wb') as f:
                f.write(tag + b'f1')
            os.utime(pathb + b'/f1', (self._mt(), self._mt()))
            if v % 3 != 0:
                os.mkdir(pathb + b'/sub')
                with open(pathb + b'/sub/f2 x', 'wb') as f:
                    f.write(tag + b'f2' * 50)
                os.chmod(pathb + b'/sub/f2 x', 0o600)
                os.symlink(b'../f1', pathb + b'/sub/ln')
                os.mkdir(pathb + b'/sub/deep')
                os.symlink(os.fsencode(self.outside_target(o, 'dir')), pathb + b'/sub/deep/out-dir')
                os.symlink(os.fsencode(self.outside_target(o, 'file')), pathb + b'/sub/out-file')
                os.symlink(b'/nonexistent/x', pathb + b'/sub/deep/dangling')
                for p in (b'/sub/f2 x', b'/sub/deep', b'/sub'):
                    os.utime(pathb + p, (self._mt(), self._mt()))
            if v % 2 == 1:
                os.mkdir(pathb + b'/emptydir')
                os.chmod(pathb + b'/emptydir', 0o750)
                os.utime(pathb + b'/emptydir', (self._mt(), self._mt()))
            os.chmod(pathb, [0o755, 0o700, 0o775][v % 3])
            os.utime(pathb, (self._mt(), self._mt()))
            sub = 'tree' if v % 3 != 0 else 'flat'
        elif kind in ('link', 'dlink'):
            if kind == 'dlink':
                lk = ['dangling', 'reldangling', 'dangling'][v % 3]
            else:
                lk = ['file', 'dir', 'link', 'relfile', 'xvolfile', 'dir', 'toentry', 'mounttop'][v % 8]
                if lk == 'toentry' and (in_trash or not getattr(self, 'entry_paths', None)):
                    lk = 'file'
                if lk == 'mounttop':
                    # the target is the top directory of a mounted volume (~/usb -> /media/usb): still only a link
                    here = self.vol_of_region(next((r for r in REGIONS if pathb.startswith(os.fsencode(self.rpath(r)) + b'/')
                                                   and r in self.cfg['mounted'] and r != 'R'), 'R'))
                    others = [r for r in self.cfg['mounted'] if r != 'R' and r != here]
                    usedt = self.__dict__.setdefault('used_link_targets', set())
                    # (a link's identity is its target string: one such link per world)
                    if others and not in_trash and os.fsencode(self.rpath(others[0])) not in usedt:
                        usedt.add(os.fsencode(self.rpath(others[0])))
                    else:
                        lk = 'dir'
            if lk == 'dangling':
                tgt = '/nonexistent/tgt-%d' % o
            elif lk == 'reldangling':
                tgt = 'nowhere/tgt-%d' % o
            elif lk == 'toentry':
                # a link to ANOTHER entry of the model (which may be trashed in the same invocation)
                used = self.__dict__.setdefault('used_link_targets', set())
                others = [p for p in self.entry_paths if p != pathb and p not in used]   # the target string is a link's identity
                if others:
                    used.add(others[(v + o) % len(others)])
                    tgt = os.fsdecode(others[(v + o) % len(others)])
                else:
                    tgt = self.outside_target(o, 'file')
            elif lk == 'mounttop':
                tgt = self.rpath(others[0])
            elif lk == 'relfile':
                # relative target (meaningful at the original location only)
                tgt = os.path.relpath(self.outside_target(o, 'file'), os.fsdecode(os.path.dirname(pathb)))
                if in_trash:
                    tgt = '../../rel-target-%d' % o
            else:
                tgt = self.outside_target(o, lk)
            os.symlink(os.fsencode(tgt), pathb)
            os.utime(pathb, (self._mt(), self._mt()), follow_symlinks=False)
            sub = 'link-' + lk
        else:
            raise ValueError(kind)
        self.obj_info[o] = {'kind': kind, 'sub': sub, 'variant': v}
        return sub

    def outside_target(self, o, what):
        tdir = os.path.join(self.root, 'targets')
        os.makedirs(tdir, exist_ok=True)
        if what in ('file', 'relfile'):
            p = os.path.join(tdir, 'tf-%d' % o)
            if not os.path.lexists(p):
                with open(p, 'w') as f:
                    f.write('target file of %d' % o)
        elif what == 'dir':
            p = os.path.join(tdir, 'td-%d' % o)
            if not os.path.lexists(p):
                os.mkdir(p)
                with open(os.path.join(p, 'inside'), 'w') as f:
                    f.write('inside target dir of %d' % o)
                # permission bits are part of what must not change: read-only and private sub-directories
                os.makedirs(os.path.join(p, 'pkg', 'private'))
                with open(os.path.join(p, 'pkg', 'private', 'key'), 'w') as f:
                    f.write('k')
                os.chmod(os.path.join(p, 'pkg', 'private'), 0o500)
                os.chmod(os.path.join(p, 'pkg'), 0o555)
        elif what == 'link':
            p = os.path.join(tdir, 'tl-%d' % o)
            if not os.path.lexists(p):
                os.symlink(self.outside_target(o, 'file'), p)
        elif what == 'xvolfile':
            # a target on another volume than R if one is mounted
            others = [r for r in self.cfg['mounted'] if r != 'R']
            base = self.rpath(others[0]) if others else tdir
            p = os.path.join(base, '.xt-%d' % o)
            if not os.path.lexists(p):
                with open(p, 'w') as f:
                    f.write('xvol target of %d' % o)
        else:
            raise ValueError(what)
        return p

    def register(self, o, pathb):
        snap = {}
        rootb = os.fsencode(self.root)
        rel = pathb[len(rootb) + 1:]
        sub = snapshot_sub(pathb)
        d = digest_of_sub(sub)
        self.digest2obj[d] = o
        return d

    # ---- materialise -------------------------------------------------------------
    def materialise(self, st, slot_style=0):
        cfg = self.cfg
        conc = self.conc
        os.umask(0o022)
        for r in REGIONS:
            os.makedirs(self.rpath(r), exist_ok=True)
        os.makedirs(self.home(), exist_ok=True)
        if cfg.get('hlink', 'none') != 'none':
            # $XDG_DATA_HOME is a symlink to a directory of another region: the home trash (not a link itself) then
            # lives on that region's volume
            remote = os.path.join(self.rpath(cfg['hlink']), '.xdg-remote')
            os.makedirs(remote, exist_ok=True)
            os.symlink(remote, os.path.join(self.home(), 'xdg'))
        elif cfg['xdg'] == 'set' and conc.xdg_link:
            os.makedirs(os.path.join(self.home(), 'realxdg'), exist_ok=True)
            os.symlink('realxdg', os.path.join(self.home(), 'xdg'))
        os.makedirs(os.path.join(self.root, 'cwd'), exist_ok=True)
        for x in st['dirs']:
            os.makedirs(self.dpath(x['r'], x['d']), exist_ok=True)
        # volumes and directories owned by a uid / gid without passwd / group entry (a disk from another machine)
        if os.geteuid() == 0 and random.Random('owner|%s' % conc.variant_seed).random() < 0.3:
            for r in REGIONS:
                if r != 'R' and os.path.isdir(self.rpath(r)):
                    for dd in [self.rpath(r)] + [self.dpath(x['r'], x['d']) for x in st['dirs'] if x['r'] == r]:
                        try:
                            os.lchown(dd, 61234, 61235)
                        except OSError:
                            pass
        # .Trash states
        for v in cfg['mounted']:
            ts = cfg['top'][v]
            p = os.path.join(self.rpath(v), '.Trash')
            # "sticky" is the sticky bit, whatever the other bits say (setgid "group shared" directories, setuid, 0755 ...)
            rr = random.Random('topmode|%s|%s' % (conc.variant_seed, v))
            sticky_mode = rr.choice([0o1777, 0o1777, 0o1755, 0o3777, 0o1700, 0o5777])
            plain_mode = rr.choice([0o777, 0o777, 0o755, 0o2777, 0o2775, 0o4777, 0o6755])
            if ts in ('sticky', 'nonsticky'):
                os.mkdir(p)
                os.chmod(p, sticky_mode if ts == 'sticky' else plain_mode)
            elif ts in ('linksticky', 'linknonsticky'):
                real = os.path.join(self.rpath(v), '.realtrash')
                os.mkdir(real)
                os.chmod(real, sticky_mode if ts == 'linksticky' else plain_mode)
                os.symlink('.realtrash', p)
            elif ts == 'file':
                with open(p, 'w') as f:
                    f.write('not a dir')
            if v in cfg['altfile']:
                with open(os.path.join(self.rpath(v), '.Trash-%d' % conc.uid), 'w') as f:
                    f.write('not a dir')
        kinds = cfg['kind']
        # live entries (non-links first, so that a link may point to another entry)
        # only entries that are not links themselves: a link to a dangling link would itself be inaccessible (dlink)
        self.entry_paths = [self.lpath(e['r'], e['d'], e['n']) for e in st['live'] if kinds[e['o'] - 1] in ('file', 'dir')]
        for e in sorted(st['live'], key=lambda x: kinds[x['o'] - 1] in ('link', 'dlink')):
            pb = self.lpath(e['r'], e['d'], e['n'])
            self.make_object(e['o'], kinds[e['o'] - 1], pb)
            self.register(e['o'], pb)
        # trash directories
        for t in st['tex']:
            tp = self.tpath(t)
            os.makedirs(tp, exist_ok=True)
            os.chmod(tp, 0o700)
            for part in ('files', 'info'):
                os.makedirs(os.path.join(tp, part), exist_ok=True)
                os.chmod(os.path.join(tp, part), 0o700)
        used = {}

        def slot_for(t, nb):
            k = 0
            while True:
                if slot_style == 1 and k == 0:
                    s = nb + b'.2'         # a foreign implementation's naming
                else:
                    s = nb if k == 0 else nb + b'_%d' % k
                if (t, s) not in used:
                    used[(t, s)] = True
                    return s
                k += 1

        def info_bytes(t, r, d, n, date):
            p = self.lpath(r, d, n)
            base = self.tbase(t)
            if base is not None:
                bb = os.fsencode(base)
                if p.startswith(bb + b'/'):
                    p = p[len(bb) + 1:]     # else: a foreign writer's absolute Path in a volume trash directory
            if date == NODATE:
                # "no date": the line is missing, or present and unparseable (garbage, or well-shaped but not a calendar date)
                rr = random.Random('nodate|%s|%s|%s|%s' % (conc.variant_seed, t, d, n))
                bad = rr.choice([None, None, b'garbage', b'', b'2023-02-30T12:00:00', b'2021-04-31T00:00:00', b'2020-13-01T00:00:00',
                                 b'0000-01-01T00:00:00', b'2020-01-01', b'2020-01-01T24:00:00', b'2019-02-29T23:59:59'])
                return format_info(p, None) + (b'DeletionDate=' + bad + b'\n' if bad is not None else b'')
            return format_info(p, conc.date_str(date))

        for i in sorted(st['items'], key=lambda x: (x['t'], x['o'])):
            t = i['t']
            tp = os.fsencode(self.tpath(t))
            s = slot_for(t, conc.name(i['n']))
            pb = tp + b'/files/' + s
            self.make_object(i['o'], kinds[i['o'] - 1], pb, in_trash=True)
            self.register(i['o'], pb)
            with open(tp + b'/info/' + s + b'.trashinfo', 'wb') as f:
                f.write(info_bytes(t, i['r'], i['d'], i['n'], i['date']))
            self.slots[(t, s)] = ('item', i['o'])
        for x in sorted(st['orph'], key=lambda x: (x['t'], x['o'])):
            tp = os.fsencode(self.tpath(x['t']))
            # a payload without info often carries the very name the next trash-put will want
            rr = random.Random('orphslot|%s|%s' % (conc.variant_seed, x['o']))
            s = slot_for(x['t'], conc.name(rr.choice(NAMES)) if rr.random() < 0.7 else b'orphan-%d' % x['o'])
            pb = tp + b'/files/' + s
            self.make_object(x['o'], kinds[x['o'] - 1], pb, in_trash=True)
            self.register(x['o'], pb)
            self.slots[(x['t'], s)] = ('orph', x['o'])
        for k in sorted(st['strays'], key=lambda x: (x['t'], x['id'])):
            tp = os.fsencode(self.tpath(k['t']))
            s = slot_for(k['t'], conc.name(k['n']))
            with open(tp + b'/info/' + s + b'.trashinfo', 'wb') as f:
                f.write(info_bytes(k['t'], k['r'], k['d'], k['n'], k['date']))
            self.slots[(k['t'], s)] = ('stray', k['id'])
        for j in sorted(st['junk'], key=lambda x: (x['t'], x['id'])):
            tp = os.fsencode(self.tpath(j['t']))
            self.write_junk(tp, j)
        # the size cache of the FreeDesktop.org spec, as file managers write it: an entry of the trash directory that is
        # neither under files/ nor under info/ (a regular file, or a symlink to a file elsewhere): nobody may touch it
        for t in st['tex']:
            rr = random.Random('dirsizes|%s|%s' % (conc.variant_seed, t))
            v = rr.random()
            if v < 0.35:
                tp = os.fsencode(self.tpath_real(t))
                lines = b''.join(b'%d %d %s\n' % (4096 + k, 1500000000 + k, escape(sl))
                                 for k, (tt_, sl) in enumerate(sorted(self.slots)) if tt_ == t)
                lines += b'12 1400000000 gone-long-ago\n'
                if v < 0.12:
                    out = os.path.join(self.root, 'targets')
                    os.makedirs(out, exist_ok=True)
                    tgt = os.fsencode(os.path.join(out, 'sizes-%s' % t.replace(':', '-')))
                    with open(tgt, 'wb') as f:
                        f.write(lines)
                    if not os.path.lexists(tp + b'/directorysizes'):
                        os.symlink(tgt, tp + b'/directorysizes')
                else:
                    with open(tp + b'/directorysizes', 'wb') as f:
                        f.write(lines)
        self.make_td_links()
        self.tv_alias = None
        if getattr(conc, 'tv_spelled', False) and 'V1' in cfg['mounted'] and not getattr(conc, 'deep', False):
            dec = os.path.join(self.root, 'tvdecoy')
            os.makedirs(os.path.join(self.root, 'tvsub'), exist_ok=True)
            os.makedirs(dec, exist_ok=True)
            os.symlink(os.path.join('..', 'tvsub'), os.path.join(dec, 'L'))
            top = os.path.join(dec, 'm1', '.Trash')
            os.makedirs(os.path.join(top, str(conc.uid), 'files'))
            os.makedirs(os.path.join(top, str(conc.uid), 'info'))
            os.chmod(top, 0o777)
            with open(os.path.join(top, str(conc.uid), 'info', 'decoy.trashinfo'), 'wb') as f:
                f.write(format_info(b'decoy-entry', '2001-01-01T00:00:00'))
            with open(os.path.join(top, str(conc.uid), 'files', 'decoy'), 'w') as f:
                f.write('kept in a directory nobody may use')
            self.tv_alias = (self.rpath('V1'), os.path.join(dec, 'L', '..', 'm1'))
        self.baseline = snapshot(self.root)
        return self

    JUNK_NOPATH = [b'', b'[Trash Info]\n', b'[Trash Info]\nPath', b'\x00\x01\x02\xff\xfe binary \x80',
                   b'[Trash Info]\nDeletionDate=not-a-date\n', b'Pat=/x\n', b'[Trash Info]\nXPath=/a/b\n']

    def write_junk(self, tp, j):
        rnd = random.Random('junk|%s|%s' % (self.conc.variant_seed, j['id']))
        if j['kind'] == 'nopath':
            s = b'junk-%d' % j['id'] if rnd.random() < 0.5 else b'junk-%d 100%% %%s %%(x)d' % j['id']
            v = rnd.random()
            if v < 0.2:
                os.mkdir(tp + b'/info/' + s + b'.trashinfo')      # an info entry that cannot be read as a file
            elif v < 0.35:
                os.symlink(b'/nonexistent/info-of-%d' % j['id'], tp + b'/info/' + s + b'.trashinfo')   # nor even stat()ed
            else:
                with open(tp + b'/info/' + s + b'.trashinfo', 'wb') as f:
                    f.write(rnd.choice(self.JUNK_NOPATH))
            self.slots[(j['t'], s)] = ('junk', j['id'])
        elif j['kind'] == 'notinfo':
            # a file in info/ that is not the info file of any slot: another suffix, or no slot name at all
            s = b'junk-%d.txt' % j['id']
            real_slots = sorted(sl for (tt_, sl), (kind_, _) in self.slots.items() if tt_ == j['t'] and kind_ == 'item')
            if real_slots and rnd.random() < 0.3:
                # the name of a REAL entry with the suffix in another letter case: not an info file (the suffix is .trashinfo),
                # though its content says "old": taking it for one purges that entry's payload
                s = rnd.choice(real_slots) + rnd.choice([b'.TRASHINFO', b'.Trashinfo', b'.trashInfo'])
            elif rnd.random() < 0.5:
                # no slot name at all, or the slot names '.' and '..' (which can never be payloads: files/. is files/ itself,
                # files/.. is the trash directory)
                alt = rnd.choice([b'.trashinfo', b'..trashinfo', b'...trashinfo'])
                if not os.path.lexists(tp + b'/info/' + alt):
                    s = alt
            if s.endswith(b'.txt') and rnd.random() < 0.3:
                os.symlink(b'/nonexistent/not-an-info-%d' % j['id'], tp + b'/info/' + s)       # a dangling link that is no info file
            else:
                with open(tp + b'/info/' + s, 'wb') as f:
                    f.write(b'[Trash Info]\nPath=' + escape(self.lpath('R', 'd', 'a')) + b'\nDeletionDate=1971-01-01T00:00:00\n')
            self.slots[(j['t'], s)] = ('junkfile', j['id'])
        else:
            raise ValueError(j['kind'])

    # ---- projection ------------------------------------------------------------------
    def project(self, check_outside=True):
        """-> (abstract state dict, anomalies list, slot map)"""
        conc = self.conc
        snap = snapshot(self.root)
        rootb = os.fsencode(self.root)
        anomalies = []
        consumed = set()

        def rel_of(pathb):
            return pathb[len(rootb) + 1:] if pathb != rootb else b'.'

        def consume(rel):
            pre = rel + b'/'
            for k in snap:
                if k == rel or k.startswith(pre):
                    consumed.add(k)

        def obj_at(rel, where):
            d = subtree_digest_rel(snap, rel)
            o = self.digest2obj.get(d)
            if o is None:
                anomalies.append('damaged object at %s (%r)' % (where, rel))
                return -99
            return o

        live = []
        loc_of_path = {}
        for r in REGIONS:
            for d in DIRS:
                for n in NAMES:
                    pb = self.lpath(r, d, n)
                    rel = rel_of(pb)
                    loc_of_path[pb] = (r, d, n)
                    if rel in snap:
                        live.append({'r': r, 'd': d, 'n': n, 'o': obj_at(rel, 'live %s/%s/%s' % (r, d, n))})
                        consume(rel)
        dirs = []
        for r in REGIONS:
            for d in DIRS:
                rel = rel_of(os.fsencode(self.dpath(r, d)))
                if rel in snap and snap[rel][0] == 'd':
                    if d == 'top' and r not in self.cfg['mounted'] and r != 'R' and not self._region_listed(r):
                        pass
                    dirs.append({'r': r, 'd': d})
        tex, items, orph, strays, junk = [], [], [], [], []
        slots = {}
        for t in self.tdirs():
            tp = os.fsencode(self.tpath_real(t))
            rel = rel_of(tp)
            if rel not in snap:
                continue
            # allowed ancestors
            if snap[rel][0] != 'd':
                continue    # e.g. altfile: .Trash-uid is a file; handled by outside comparison
            frel, irel = rel + b'/files', rel + b'/info'
            if frel not in snap and irel not in snap:
                # an empty directory where a trash dir would be (e.g. '.Trash/uid' never used)
                if any(k.startswith(rel + b'/') for k in snap):
                    anomalies.append('unexpected content in trash dir %s' % t)
                    consume(rel)
                    continue
                consumed.add(rel)
                if rel not in self.baseline:
                    anomalies.append('trash dir %s created without files/ and info/' % t)
                continue
            tex.append(t)
            consumed.add(rel)
            newly = rel not in (self.baseline or {})
            for part, prel in (('files', frel), ('info', irel)):
                if prel not in snap or snap[prel][0] != 'd':
                    anomalies.append('trash dir %s lacks %s/' % (t, part))
                else:
                    consumed.add(prel)
                    # a directory made inside a setgid directory inherits the setgid bit (kernel): private = rwx------
                    if self.baseline is not None and prel not in self.baseline and (snap[prel][1] & ~0o2000) != 0o700:
                        anomalies.append('created %s/%s with mode %o' % (t, part, snap[prel][1]))
            if self.baseline is not None and newly and (snap[rel][1] & ~0o2000) != 0o700:
                anomalies.append('created trash dir %s with mode %o' % (t, snap[rel][1]))
            infos = {}
            pays = {}
            for k in snap:
                if k.startswith(irel + b'/') and b'/' not in k[len(irel) + 1:]:
                    infos[k[len(irel) + 1:]] = k
                elif k.startswith(frel + b'/') and b'/' not in k[len(frel) + 1:]:
                    pays[k[len(frel) + 1:]] = k
            for k in snap:
                if (k.startswith(rel + b'/') and not k.startswith(irel + b'/') and not k.startswith(frel + b'/')
                        and k not in (irel, frel)):
                    # directorysizes etc. are not modelled: anything else inside a trash dir is an anomaly if new
                    if self.baseline is None or k not in self.baseline:
                        anomalies.append('unexpected entry in trash dir %s: %r' % (t, k[len(rel) + 1:]))
                    consumed.add(k)
            base = self.tbase(t)
            seen_pay = set()
            for iname, ik in sorted(infos.items()):
                consume(ik)
                known = self.slots.get((t, iname)) or self.slots.get((t, iname[:-10] if iname.endswith(b'.trashinfo') else iname))
                if not iname.endswith(b'.trashinfo') or iname in (b'.trashinfo', b'..trashinfo', b'...trashinfo'):
                    if known and known[0] == 'junkfile':
                        junk.append({'t': t, 'id': known[1], 'kind': 'notinfo'})
                        if snap[ik] != self.baseline.get(ik):
                            anomalies.append('junk file %r modified' % iname)
                    else:
                        anomalies.append('unexpected non-trashinfo %r in %s/info' % (iname, t))
                    continue
                slot = iname[:-10]
                e = snap[ik]
                if known and known[0] == 'junk':
                    junk.append({'t': t, 'id': known[1], 'kind': 'nopath'})
                    slots[(t, slot)] = ('junk', known[1])
                    if e != self.baseline.get(ik):
                        anomalies.append('junk info %r modified' % iname)
                    if slot in pays:
                        seen_pay.add(slot)
                    continue
                if e[0] != 'f':
                    anomalies.append('info entry %r in %s is not a regular file' % (iname, t))
                    continue
                with open(rootb + b'/' + ik, 'rb') as f:
                    content = f.read()
                pth, dat = parse_info(content)
                loc = None
                if pth is None:
                    anomalies.append('info %r in %s has no Path (content %r)' % (iname, t, content[:80]))
                    continue
                if not pth.startswith(b'/'):
                    if base is None:
                        anomalies.append('relative Path in home trash info %r' % iname)
                        ab = b'/?rel/' + pth
                    else:
                        ab = os.fsencode(base) + b'/' + pth
                    if b'..' in pth.split(b'/'):
                        anomalies.append('Path with .. in %r' % iname)
                else:
                    ab = pth
                    if base is not None and (self.baseline is None or ik not in self.baseline):
                        anomalies.append('absolute Path written in volume trash dir %s: %r' % (t, pth))
                loc = loc_of_path.get(ab)
                if loc is None:
                    anomalies.append('info %r in %s names unknown location %r' % (iname, t, ab))
                    loc = ('?', '?', '?')
                if dat is None:
                    tick = NODATE
                else:
                    try:
                        dt = datetime.datetime.strptime(dat.decode('ascii', 'replace'), '%Y-%m-%dT%H:%M:%S')
                        tick = conc.dt_to_tick(dt)
                        if tick is None:
                            anomalies.append('info %r in %s has unmapped date %r' % (iname, t, dat))
                            tick = -98
                    except ValueError:
                        tick = NODATE
                if content.split(b'\n')[0] != b'[Trash Info]' and (self.baseline is None or self.baseline.get(ik) != e):
                    anomalies.append('info %r in %s lacks the [Trash Info] header' % (iname, t))
                if self.baseline is not None and ik in self.baseline and self.baseline[ik] != e:
                    anomalies.append('pre-existing info %r in %s modified' % (iname, t))
                if self.baseline is not None and ik not in self.baseline and (e[1] & 0o077):
                    pass  # info mode is not constrained by the properties
                if slot in pays:
                    seen_pay.add(slot)
                    o = obj_at(pays[slot], 'payload %s/files/%r' % (t, slot))
                    consume(pays[slot])
                    items.append({'t': t, 'o': o, 'r': loc[0], 'd': loc[1], 'n': loc[2], 'date': tick})
                    slots[(t, slot)] = ('item', o)
                else:
                    sid = known[1] if known and known[0] == 'stray' else None
                    if sid is None:
                        anomalies.append('info without payload %r in %s' % (iname, t))
                        sid = 900 + len(strays)
                    strays.append({'t': t, 'id': sid, 'r': loc[0], 'd': loc[1], 'n': loc[2], 'date': tick})
                    slots[(t, slot)] = ('stray', sid)
            for slot, pk in sorted(pays.items()):
                if slot in seen_pay:
                    continue
                o = obj_at(pk, 'orphan %s/files/%r' % (t, slot))
                consume(pk)
                known = self.slots.get((t, slot))
                if not (known and known[0] == 'orph'):
                    anomalies.append('payload without info %r in %s' % (slot, t))
                orph.append({'t': t, 'o': o})
                slots[(t, slot)] = ('orph', o)
        if check_outside and self.baseline is not None:
            allowed_new = set()
            for t in self.tdirs():
                p = rel_of(os.fsencode(self.tpath_real(t)))
                while b'/' in p:
                    p = p.rsplit(b'/', 1)[0]
                    allowed_new.add(p)
            for r in REGIONS:
                for d in DIRS:
                    allowed_new.add(rel_of(os.fsencode(self.dpath(r, d))))
            for k, e in snap.items():
                if k in consumed:
                    continue
                b = self.baseline.get(k)
                if b is None:
                    if k in allowed_new and e[0] == 'd':
                        continue
                    anomalies.append('new entry outside: %r' % k)
                elif e[0] == 'd':
                    if (e[0], e[1]) != (b[0], b[1]):
                        anomalies.append('outside dir changed: %r' % k)
                elif e != b:
                    anomalies.append('outside entry changed: %r' % k)
            for k, b in self.baseline.items():
                if k not in snap and not self._was_consumed_baseline(k):
                    anomalies.append('outside entry vanished: %r' % k)
        for t in sorted(getattr(self, 'virtual_tex', ())):
            if t not in tex:
                tex.append(t)      # an emptied trash directory that a purge removed as a whole (tolerated: see tt.purge_tolerance)
        st = {'live': live, 'dirs': dirs, 'tex': tex, 'items': items, 'orph': orph, 'strays': strays, 'junk': junk}
        self.last_slots = slots
        self.last_snapshot = snap
        return st, anomalies, slots

    def rebaseline(self):
        """make the state just projected the reference for the next step (behaviour replay)"""
        self.baseline = self.last_snapshot

    def classify(self, rel):
        """class of a sandbox-relative path (str): 'trash' (inside a trash directory or one of the
        directories leading to it), 'src:r/d/n' (a location or below it), 'dir:r/d', or 'other'"""
        if rel is None:
            return 'outside-sandbox'
        rootb = os.fsencode(self.root)
        relb = os.fsencode(rel)
        for r in REGIONS:
            for d in DIRS:
                for n in NAMES:
                    lp = self.lpath(r, d, n)[len(rootb) + 1:]
                    if relb == lp or relb.startswith(lp + b'/'):
                        return 'src:%s/%s/%s' % (r, d, n)
        for t in self.tdirs():
            tp = os.fsencode(self.tpath_real(t))[len(rootb) + 1:]
            if relb == tp or relb.startswith(tp + b'/'):
                return 'trash'
            p = tp
            while b'/' in p:
                p = p.rsplit(b'/', 1)[0]
                if relb == p and p not in (b'home', b'home/u', b'm1', b'm1/n2', b'ohome', b'ohome/o'):
                    return 'trash'
        for r in REGIONS:
            for d in DIRS:
                dp = os.fsencode(self.dpath(r, d))[len(rootb) + 1:] or b'.'
                if relb == dp:
                    return 'dir:%s/%s' % (r, d)
        return 'other'

    def _region_listed(self, r):
        return True

    def _was_consumed_baseline(self, k):
        """was k (a baseline path) part of a modelled area (a location, a trash dir, a dir slot)?"""
        rootb = os.fsencode(self.root)
        for r in REGIONS:
            for d in DIRS:
                dp = os.fsencode(self.dpath(r, d))[len(rootb) + 1:]
                if k == dp:
                    return True
                for n in NAMES:
                    lp = self.lpath(r, d, n)[len(rootb) + 1:]
                    if k == lp or k.startswith(lp + b'/'):
                        return True
        for t in self.tdirs():
            tp = os.fsencode(self.tpath_real(t))[len(rootb) + 1:]
            if k.startswith(tp + b'/files/') or k.startswith(tp + b'/info/'):
                return True
        return False


def snapshot_sub(pathb):
    res = {}
    stack = [b'']
    while stack:
        rel = stack.pop()
        p = pathb + rel
        e = snap_entry(p)
        res[rel] = e
        if e[0] == 'd':
            for n in os.listdir(p):
                stack.append(rel + b'/' + n)
    return res


def digest_of_sub(sub):
    h = hashlib.sha256()
    for k in sorted(sub):
        h.update(repr((k, sub[k])).encode())
    return h.hexdigest()[:20]


def subtree_digest_rel(snap, rel):
    pre = rel + b'/'
    sub = {}
    for k in snap:
        if k == rel:
            sub[b''] = snap[k]
        elif k.startswith(pre):
            sub[k[len(rel):]] = snap[k]
    return digest_of_sub(sub)


SEQ_KEYS = {'args', 'ocs', 'listing', 'idx', 'kind'}


def canon(x, key=None):
    """canonical form of an abstract state / JSON value for equality (sets are lists in JSON;
    the values of SEQ_KEYS are sequences and keep their order)."""
    if isinstance(x, dict):
        return {k: canon(v, k) for k, v in sorted(x.items())}
    if isinstance(x, list):
        items = [canon(v) for v in x]
        if key in SEQ_KEYS:
            return items
        try:
            return sorted(items, key=lambda v: json.dumps(v, sort_keys=True))
        except TypeError:
            return items
    return x

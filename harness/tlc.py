"""Running TLC and reading what it prints."""
from __future__ import annotations

import json
import os
import re
import shutil
import subprocess
import tempfile
import time

SPEC_DIR = os.path.join(os.path.dirname(os.path.dirname(os.path.abspath(__file__))), 'spec')
JAR = '/opt/veriftools/tla/tla2tools.jar:/opt/veriftools/tla/CommunityModules-deps.jar'


class TlcResult(object):
    def __init__(self):
        self.ok = False
        self.generated = 0
        self.distinct = 0
        self.depth = 0
        self.emitted = []        # parsed JSON values printed with the "@@" prefix
        self.lines = []          # other PrintT lines
        self.error = None
        self.violated = None     # name of violated invariant / property
        self.raw = ''
        self.wall = 0.0
        self.coverage = {}       # action name -> (distinct, total) when -coverage was on
        self.thinned = 1         # 1 = every emitted value was kept


def run_tlc(module, cfg_text=None, cfg_file=None, workers=8, simulate=None, depth=None, seed=None,
            timeout=1800, env=None, extra=None, coverage=False, deadlock=False, heap='4g', keep=False,
            spec_dir=None, extra_files=None, thin_key=None, thin_cap=None):
    """Run TLC on spec/<module>.tla with the given configuration text.  The output is read as a stream: the values TLC
    prints with the "@@" prefix are parsed one by one and never held as text.  thin_key / thin_cap bound what is kept of
    them: when more than thin_cap values have arrived, only those whose thin_key hashes to 0 modulo m stay (m doubles each
    time the cap is hit again), so that values sharing a key - the alternative outcomes of one case - stay or go together;
    res.thinned is the final m."""
    sd = spec_dir or SPEC_DIR
    work = tempfile.mkdtemp(prefix='vtlc-', dir='/dev/shm' if os.path.isdir('/dev/shm') else None)
    res = TlcResult()
    try:
        # TLC resolves EXTENDS relative to the module's directory: copy the specs (small) into the work dir
        for f in os.listdir(sd):
            if f.endswith('.tla'):
                shutil.copy(os.path.join(sd, f), work)
        for name, text in (extra_files or {}).items():
            with open(os.path.join(work, name), 'w') as f:
                f.write(text)
        cfgp = os.path.join(work, module + '.run.cfg')
        if cfg_text is None:
            cfg_text = open(cfg_file or os.path.join(sd, module + '.cfg')).read()
        with open(cfgp, 'w') as f:
            f.write(cfg_text)
        cmd = ['java', '-XX:+UseParallelGC', '-XX:ParallelGCThreads=4', '-Xmx' + heap, '-Xss64m', '-cp', JAR, 'tlc2.TLC',
               '-workers', str(workers), '-metadir', os.path.join(work, 'meta'), '-noGenerateSpecTE',
               '-config', cfgp]
        if simulate:
            s = 'num=%d' % simulate
            cmd += ['-simulate', s]
        if depth:
            cmd += ['-depth', str(depth)]
        if seed is not None:
            cmd += ['-seed', str(seed)]
        if coverage:
            cmd += ['-coverage', '1']
        if deadlock:
            cmd += ['-deadlock']
        if extra:
            cmd += extra
        cmd.append(os.path.join(work, module + '.tla'))
        e = dict(os.environ)
        e.pop('JAVA_TOOL_OPTIONS', None)
        if env:
            e.update(env)
        t0 = time.time()
        import hashlib
        import threading
        p = subprocess.Popen(cmd, cwd=work, env=e, stdout=subprocess.PIPE, stderr=subprocess.STDOUT)
        timed_out = [False]

        def _kill():
            timed_out[0] = True
            try:
                p.kill()
            except OSError:
                pass
        timer = threading.Timer(timeout, _kill)
        timer.start()
        other = []
        m = 1

        def _h(v):
            return int(hashlib.sha1(json.dumps(thin_key(v), sort_keys=True).encode()).hexdigest()[:8], 16)
        try:
            for bline in p.stdout:
                line = bline.decode('utf-8', 'replace').rstrip('\n')
                if line.startswith('"@@'):
                    try:
                        v = json.loads(json.loads(line)[2:])
                    except ValueError:
                        res.lines.append(line)
                        continue
                    if thin_key is not None and m > 1 and _h(v) % m != 0:
                        continue
                    res.emitted.append(v)
                    if thin_key is not None and thin_cap and len(res.emitted) > thin_cap:
                        m *= 2
                        res.emitted = [x for x in res.emitted if _h(x) % m == 0]
                    continue
                other.append(line)
            rc = p.wait()
        finally:
            timer.cancel()
        if timed_out[0]:
            rc = -1
            res.error = 'timeout'
        res.thinned = m
        out = '\n'.join(other)
        res.wall = time.time() - t0
        res.raw = out
        parse_output(res, out)
        if rc == 0 and res.error is None:
            res.ok = True
        elif res.error is None:
            res.error = 'exit %s' % rc
        return res
    finally:
        if not keep:
            shutil.rmtree(work, ignore_errors=True)
        else:
            res.workdir = work


_re_states = re.compile(r'(\d[\d,]*) states generated, (\d[\d,]*) distinct states found')
_re_depth = re.compile(r'The depth of the complete state graph search is (\d+)')
_re_inv = re.compile(r'Invariant (\S+) is violated')
_re_prop = re.compile(r'Action property (\S+) is violated|Temporal properties were violated|property (\S+) .*violated', re.I)


def parse_output(res, out):
    for line in out.split('\n'):
        if line.startswith('"@@'):
            try:
                res.emitted.append(json.loads(json.loads(line)[2:]))
            except ValueError:
                res.lines.append(line)
            continue
        m = _re_states.search(line)
        if m:
            res.generated = int(m.group(1).replace(',', ''))
            res.distinct = int(m.group(2).replace(',', ''))
        m = re.search(r'The number of states generated: (\d+)', line)
        if m:
            res.generated = int(m.group(1))
            res.distinct = max(res.distinct, len(res.emitted))
        m = _re_depth.search(line)
        if m:
            res.depth = int(m.group(1))
        m = _re_inv.search(line)
        if m:
            res.violated = m.group(1)
            res.error = 'invariant %s violated' % m.group(1)
        if 'is violated' in line and res.violated is None:
            res.violated = line.strip()
            res.error = line.strip()
        if line.startswith('Error:') and res.error is None:
            res.error = line.strip()
        if line.startswith('"##') or line.startswith('<<"##'):
            res.lines.append(line)
    # coverage: lines like "<Put line 160, col 1 to line 161 ... of module Trash>: 12:345"
    for m in re.finditer(r'^<(\w+) line \d+, col \d+ to line \d+, col \d+ of module (\w+)>: (\d+):(\d+)', out, re.M):
        res.coverage[m.group(1)] = (int(m.group(3)), int(m.group(4)))


VALIDATE_CHUNK = 4000     # observed steps per TLC invocation (the cost of one invocation grows faster than its input)


def validate_steps(steps, module='TrashTrace', init='InitT', next_='NextT', constants=None, workers=4, timeout=1800):
    """Have TLC judge observed steps.  -> (TlcResult, set of accepted 1-based step numbers)"""
    if len(steps) > VALIDATE_CHUNK:
        total, acc_all = None, set()
        for off in range(0, len(steps), VALIDATE_CHUNK):
            r, acc = validate_steps(steps[off:off + VALIDATE_CHUNK], module, init, next_, constants, workers, timeout)
            acc_all |= {a + off for a in acc}
            if total is None:
                total = r
            else:
                total.generated += r.generated
                total.distinct += r.distinct
                total.wall += r.wall
                total.depth = max(total.depth, r.depth)
                if total.ok and not r.ok:
                    total.ok, total.error, total.violated, total.raw = r.ok, r.error, r.violated, r.raw
        return total, acc_all
    constants = constants or {'MaxObj': 12, 'MaxClock': 12, 'DayTicks': 3}
    d = tempfile.mkdtemp(prefix='vtrace-', dir='/dev/shm' if os.path.isdir('/dev/shm') else None)
    try:
        p = os.path.join(d, 'steps.json')
        with open(p, 'w') as f:
            json.dump(steps, f)
        text = 'INIT %s\nNEXT %s\nCONSTANTS %s\nCHECK_DEADLOCK FALSE\n' % (
            init, next_, ' '.join('%s = %s' % kv for kv in constants.items()))
        res = run_tlc(module, cfg_text=text, workers=workers, timeout=timeout, env={'TRACE_FILE': p})
        acc = set()
        for m in re.finditer(r'<<"##ACCEPT", (\d+)>>', res.raw):
            acc.add(int(m.group(1)))
        return res, acc
    finally:
        shutil.rmtree(d, ignore_errors=True)

"""Model checking of the operation-level specifications (PutOps / PurgeOps) with generated MC wrappers."""
from __future__ import annotations

from harness import tlc


def tla_set(xs):
    return '{' + ', '.join(xs) + '}'


def tla_str(s):
    return '"%s"' % s


def tla_pairs(ps):
    return tla_set('<<%s, %s>>' % (tla_str(a), tla_str(b)) for a, b in ps)


def putops_module(name, procs=('p1', 'p2'), cands=('t',), slots=('n', 'n1', 'n2'), rand=('r1', 'r2'), preinfo=(), prepay=(),
                  dirs_exist=(), copy_cands=(), max_faults=0, sticky=(), mutant='none', toolong=()):
    return '''---- MODULE %s ----
EXTENDS PutOps
MC_Procs == %s
MC_Cands == <<%s>>
MC_Slots == <<%s>>
MC_RandSlots == %s
MC_PreInfo == %s
MC_PrePay == %s
MC_DirsExist == %s
MC_CopyCands == %s
MC_Sticky == %s
MC_TooLong == %s
====
''' % (name, tla_set(map(tla_str, procs)), ', '.join(map(tla_str, cands)), ', '.join(map(tla_str, slots)),
       tla_set(map(tla_str, rand)), tla_pairs(preinfo), tla_pairs(prepay), tla_set(map(tla_str, dirs_exist)),
       tla_set(map(tla_str, copy_cands)), tla_pairs(sticky), tla_set(map(tla_str, toolong)))


def putops_cfg(max_faults=0, mutant='none', invariants=(), liveness=True):
    lines = ['SPECIFICATION Spec',
             'CONSTANTS Procs <- MC_Procs Cands <- MC_Cands Slots <- MC_Slots RandSlots <- MC_RandSlots',
             'CONSTANTS PreInfo <- MC_PreInfo PrePay <- MC_PrePay DirsExist <- MC_DirsExist CopyCands <- MC_CopyCands',
             'CONSTANTS Sticky <- MC_Sticky TooLong <- MC_TooLong MaxFaults = %d Mutant = "%s"' % (max_faults, mutant)]
    for i in invariants:
        lines.append('INVARIANT %s' % i)
    if liveness:
        lines.append('PROPERTY Termination')
    lines.append('CHECK_DEADLOCK FALSE')
    return '\n'.join(lines) + '\n'


SAFETY = ['TypeOK', 'NoOverwrite', 'UniqueOwnership', 'InfoBeforePayload', 'NothingLost', 'FinalStateIsC01', 'AllSucceed', 'PreKept']


def run_putops(name, invariants=SAFETY, liveness=True, workers=8, timeout=1500, **kw):
    mf = kw.pop('max_faults', 0)
    mutant = kw.pop('mutant', 'none')
    mod = putops_module('MC_' + name, **kw)
    return tlc.run_tlc('MC_' + name, cfg_text=putops_cfg(mf, mutant, invariants, liveness), workers=workers, timeout=timeout,
                       extra_files={'MC_%s.tla' % name: mod})


INV_NAMES = ['NoOverwrite', 'UniqueOwnership', 'InfoBeforePayload', 'NothingLost', 'FinalStateIsC01', 'AllSucceed', 'NoGarbage']


def judge_states(obs, workers=4, timeout=1800):
    """obs: list of {state, done, res, faulty, strayleft}.  TLC (FsTrace) evaluates the invariants of PutOps on each.
    -> (TlcResult, {1-based index: {invariant: bool}})"""
    import json, os, re, shutil, tempfile
    # the invariants do not depend on slot names: rename the slots of each observation to s1..sk (keeps the
    # constant universe small); an observation with more than 40 slots is truncated and flagged by the caller
    renamed = []
    kmax = 1
    for o in obs:
        names = sorted(set(a for m in (o['state']['info'], o['state']['pay']) for t in m for a in m[t]))
        mp = {a: 's%d' % (i + 1) for i, a in enumerate(names[:40])}
        kmax = max(kmax, len(mp))
        st = dict(o['state'])
        for key in ('info', 'pay'):
            st[key] = {t: {mp[a]: v for a, v in o['state'][key][t].items() if a in mp} for t in o['state'][key]}
        renamed.append(dict(o, state=st))
    obs = renamed
    slots = set('s%d' % (i + 1) for i in range(kmax))
    mod = '''---- MODULE MC_FsTrace ----
EXTENDS FsTrace
MC_Procs == {"p1", "p2", "p3"}
MC_Cands == <<"t1", "t2", "t3">>
MC_Slots == << >>
MC_RandSlots == %s
MC_Empty == {}
====
''' % tla_set(map(tla_str, sorted(slots)))
    cfg = ('INIT InitF\nNEXT NextF\nCONSTANTS Procs <- MC_Procs Cands <- MC_Cands Slots <- MC_Slots RandSlots <- MC_RandSlots\n'
           'CONSTANTS PreInfo <- MC_Empty PrePay <- MC_Empty DirsExist <- MC_Empty CopyCands <- MC_Empty Sticky <- MC_Empty\n'
           'CONSTANTS TooLong <- MC_Empty MaxFaults = 0 Mutant = "none"\nCHECK_DEADLOCK FALSE\n')
    d = tempfile.mkdtemp(prefix='vfs-', dir='/dev/shm' if os.path.isdir('/dev/shm') else None)
    try:
        p = os.path.join(d, 'obs.json')
        slim = [{'state': {k: o['state'][k] for k in ('parts', 'info', 'pay', 'src', 'clobbered')}, 'done': o.get('done', {}),
                 'res': o.get('res', {}), 'faulty': bool(o.get('faulty')), 'strayleft': bool(o.get('strayleft'))} for o in obs]
        with open(p, 'w') as f:
            json.dump(slim, f)
        res = tlc.run_tlc('MC_FsTrace', cfg_text=cfg, workers=workers, timeout=timeout, env={'TRACE_FILE': p},
                          extra_files={'MC_FsTrace.tla': mod})
        verdicts = {}
        for m in re.finditer(r'<<\s*"##INV",\s*(\d+),\s*(TRUE|FALSE),\s*(TRUE|FALSE),\s*(TRUE|FALSE),\s*(TRUE|FALSE),\s*(TRUE|FALSE),\s*(TRUE|FALSE),\s*(TRUE|FALSE)\s*>>', res.raw):
            verdicts[int(m.group(1))] = dict(zip(INV_NAMES, [g == 'TRUE' for g in m.groups()[1:]]))
        return res, verdicts
    finally:
        shutil.rmtree(d, ignore_errors=True)


def run_purgeops(name, cmd='empty', entries=('e1', 'e2', 'e3'), trees=('e2',), orphans=('o1',), selected=('e1', 'e2'),
                 crossvol=(), mutant='none', workers=4, timeout=900, occupied=()):
    mod = '''---- MODULE MC_%s ----
EXTENDS PurgeOps
MC_Entries == %s
MC_Trees == %s
MC_Orphans == %s
MC_Selected == %s
MC_CrossVol == %s
MC_Occupied == %s
====
''' % (name, tla_set(map(tla_str, entries)), tla_set(map(tla_str, trees)), tla_set(map(tla_str, orphans)),
       tla_set(map(tla_str, selected)), tla_set(map(tla_str, crossvol)), tla_set(map(tla_str, occupied)))
    cfg = ('SPECIFICATION Spec\nCONSTANTS Entries <- MC_Entries Trees <- MC_Trees Orphans <- MC_Orphans Selected <- MC_Selected '
           'CrossVol <- MC_CrossVol Occupied <- MC_Occupied\nCONSTANTS Cmd = "%s" Mutant = "%s"\n'
           'INVARIANT InfoLast\nINVARIANT RestoreNeverLoses\nINVARIANT FrameOK\nINVARIANT DoneOK\nPROPERTY RerunCompletes\n'
           'CHECK_DEADLOCK FALSE\n' % (cmd, mutant))
    return tlc.run_tlc('MC_' + name, cfg_text=cfg, workers=workers, timeout=timeout, extra_files={'MC_%s.tla' % name: mod})


PURGE_INV = ['InfoLast', 'RestoreNeverLoses', 'Frame', 'DoneOK', 'Purged']


def judge_purge(obs, workers=4, timeout=900):
    import json, os, re, shutil, tempfile
    mod = '''---- MODULE MC_PurgeTrace ----
EXTENDS PurgeTrace
MC_Entries == {"e1", "e2", "e3", "e4"}
MC_Trees == {"e2"}
MC_Orphans == {"o1", "o2"}
MC_Empty == {}
====
'''
    cfg = ('INIT InitP\nNEXT NextP\nCONSTANTS Entries <- MC_Entries Trees <- MC_Trees Orphans <- MC_Orphans Selected <- MC_Empty '
           'CrossVol <- MC_Empty Occupied <- MC_Empty\nCONSTANTS Cmd = "any" Mutant = "none"\nCHECK_DEADLOCK FALSE\n')
    d = tempfile.mkdtemp(prefix='vpg-', dir='/dev/shm' if os.path.isdir('/dev/shm') else None)
    try:
        p = os.path.join(d, 'obs.json')
        with open(p, 'w') as f:
            json.dump([dict({k: o[k] for k in ('info', 'pay', 'dest', 'done', 'cmd', 'selected', 'purged')},
                            occupied=list(o.get('occupied', []))) for o in obs], f)
        res = tlc.run_tlc('MC_PurgeTrace', cfg_text=cfg, workers=workers, timeout=timeout, env={'TRACE_FILE': p},
                          extra_files={'MC_PurgeTrace.tla': mod})
        verdicts = {}
        for m in re.finditer(r'<<\s*"##INV",\s*(\d+),\s*(TRUE|FALSE),\s*(TRUE|FALSE),\s*(TRUE|FALSE),\s*(TRUE|FALSE),\s*(TRUE|FALSE)\s*>>', res.raw):
            verdicts[int(m.group(1))] = dict(zip(PURGE_INV, [g == 'TRUE' for g in m.groups()[1:]]))
        return res, verdicts
    finally:
        shutil.rmtree(d, ignore_errors=True)


def events_of_steps(box, steps):
    """lock-step steps of real trash-put processes -> the event vocabulary of PutOpsTrace.tla"""
    import os
    tp = os.path.relpath(box.tdirs['t1'], box.root)
    paths = {tp: 'dir', tp + '/files': 'files', tp + '/info': 'info'}
    evs = []
    last_eexist = {}
    for s in steps:
        op, raw, res, p = s['op'], s['raw'], s['res'], s['p']
        path = raw[-1] if raw else None
        if path is None:
            continue
        if op == 'mkdir' and path in paths:
            evs.append({'p': p, 'k': 'mkdir', 'part': paths[path], 'slot': '-', 'res': res})
            last_eexist[p] = path if res == 'EEXIST' else None
            continue
        if op == 'stat' and path in paths and last_eexist.get(p) == path:
            evs.append({'p': p, 'k': 'isdir', 'part': paths[path], 'slot': '-', 'res': res})
            last_eexist[p] = None
            continue
        if path.startswith(tp + '/files/') and '/' not in path[len(tp) + 7:]:
            slot = box.slot_abs(os.fsencode(path[len(tp) + 7:]))
            if op in ('lstat', 'stat'):
                evs.append({'p': p, 'k': 'probe', 'part': '-', 'slot': slot, 'res': res})
                continue
            if op == 'rename':
                evs.append({'p': p, 'k': 'rename', 'part': '-', 'slot': slot, 'res': res})
                continue
        if path.startswith(tp + '/info/') and path.endswith('.trashinfo'):
            slot = box.slot_abs(os.fsencode(path[len(tp) + 6:-10]))
            k = {'open_excl': 'create', 'write': 'write', 'close': 'close'}.get(op)
            if k:
                evs.append({'p': p, 'k': k, 'part': '-', 'slot': slot, 'res': res})
                continue
        if op in ('mkdir', 'open_w', 'open_excl', 'write', 'rename', 'replace', 'link', 'symlink', 'unlink', 'rmdir',
                  'chmod', 'utime', 'truncate', 'sendfile') and (path.startswith(tp + '/') or path == tp):
            evs.append({'p': p, 'k': 'other:' + op, 'part': '-', 'slot': '-', 'res': res})   # nothing in the design matches
    return evs


def validate_put_traces(traces, procs, preinfo=(), prepay=(), dirs_exist=False, workers=4, timeout=900, toolong=()):
    """traces: list of event lists of ONE scenario -> (TlcResult, accepted 1-based ids)"""
    import json, os, re, shutil, tempfile
    slots = ['n'] + ['n%d' % i for i in range(1, 9)]
    mod = '''---- MODULE MC_PutOpsTrace ----
EXTENDS PutOpsTrace
MC_Procs == %s
MC_Cands == <<"t1">>
MC_Slots == <<%s>>
MC_RandSlots == {}
MC_PreInfo == %s
MC_PrePay == %s
MC_DirsExist == %s
MC_TooLong == %s
MC_Empty == {}
====
''' % (tla_set(map(tla_str, procs)), ', '.join(map(tla_str, slots)), tla_pairs(preinfo), tla_pairs(prepay),
       '{"t1"}' if dirs_exist else '{}', tla_set(map(tla_str, toolong)))
    cfg = ('INIT InitT\nNEXT NextT\nCONSTANTS Procs <- MC_Procs Cands <- MC_Cands Slots <- MC_Slots RandSlots <- MC_RandSlots\n'
           'CONSTANTS PreInfo <- MC_PreInfo PrePay <- MC_PrePay DirsExist <- MC_DirsExist CopyCands <- MC_Empty Sticky <- MC_Empty\n'
           'CONSTANTS TooLong <- MC_TooLong MaxFaults = 0 Mutant = "none"\n'
           'INVARIANT ReportAccept\nINVARIANT NoOverwrite\nINVARIANT UniqueOwnership\nINVARIANT InfoBeforePayload\n'
           'INVARIANT NothingLost\nINVARIANT FinalStateIsC01\nINVARIANT PreKept\nCHECK_DEADLOCK FALSE\n')
    d = tempfile.mkdtemp(prefix='vpt-', dir='/dev/shm' if os.path.isdir('/dev/shm') else None)
    try:
        p = os.path.join(d, 'traces.json')
        with open(p, 'w') as f:
            json.dump(traces, f)
        res = tlc.run_tlc('MC_PutOpsTrace', cfg_text=cfg, workers=workers, timeout=timeout, env={'TRACE_FILE': p},
                          extra_files={'MC_PutOpsTrace.tla': mod})
        acc = set(int(m.group(1)) for m in re.finditer(r'<<"##ACCEPT", (\d+)>>', res.raw))
        return res, acc
    finally:
        shutil.rmtree(d, ignore_errors=True)


def validate_purge_traces(traces, cmd, selected, crossvol, workers=4, timeout=900, occupied=()):
    """traces: list of observed-state sequences [{info, pay, dest}, ...] of ONE scenario -> (TlcResult, accepted ids)"""
    import json, os, re, shutil, tempfile
    mod = '''---- MODULE MC_PurgeOpsTrace ----
EXTENDS PurgeOpsTrace
MC_Entries == {"e1", "e2", "e3", "e4"}
MC_Trees == {"e2", "o2"}
MC_Orphans == {"o1", "o2"}
MC_Selected == %s
MC_CrossVol == %s
MC_Occupied == %s
====
''' % (tla_set(map(tla_str, selected)), tla_set(map(tla_str, crossvol)), tla_set(map(tla_str, occupied)))
    cfg = ('INIT InitT\nNEXT NextT\nCONSTANTS Entries <- MC_Entries Trees <- MC_Trees Orphans <- MC_Orphans Selected <- MC_Selected '
           'CrossVol <- MC_CrossVol Occupied <- MC_Occupied\nCONSTANTS Cmd = "%s" Mutant = "none"\n'
           'INVARIANT ReportAccept\nINVARIANT InfoLast\nINVARIANT RestoreNeverLoses\nINVARIANT FrameOK\nCHECK_DEADLOCK FALSE\n' % cmd)
    d = tempfile.mkdtemp(prefix='vpu-', dir='/dev/shm' if os.path.isdir('/dev/shm') else None)
    try:
        p = os.path.join(d, 'traces.json')
        with open(p, 'w') as f:
            json.dump(traces, f)
        res = tlc.run_tlc('MC_PurgeOpsTrace', cfg_text=cfg, workers=workers, timeout=timeout, env={'TRACE_FILE': p},
                          extra_files={'MC_PurgeOpsTrace.tla': mod})
        acc = set(int(m.group(1)) for m in re.finditer(r'<<"##ACCEPT", (\d+)>>', res.raw))
        return res, acc
    finally:
        shutil.rmtree(d, ignore_errors=True)


def run_purgeops_inductive(cmd='restore', mutant='none', timeout=600):
    """Apalache: Init => IndInv, IndInv /\\ Next => IndInv', IndInv => Safety for PurgeOps (spec/MC_PurgeOpsInd.tla.tmpl).
    -> {'ok': bool, 'failed_phase': None | 'base' | 'step' | 'safety' | 'tool', 'wall': seconds, 'detail': str}"""
    import os, shutil, subprocess, tempfile, time
    t0 = time.time()
    d = tempfile.mkdtemp(prefix='vapa-', dir='/dev/shm' if os.path.isdir('/dev/shm') else None)
    try:
        shutil.copy(os.path.join(tlc.SPEC_DIR, 'PurgeOps.tla'), d)
        name = 'MC_PurgeOpsInd_%s_%s' % (cmd, mutant)
        text = open(os.path.join(tlc.SPEC_DIR, 'MC_PurgeOpsInd.tla.tmpl')).read().replace('@CMD@', cmd).replace('@MUTANT@', mutant)
        with open(os.path.join(d, name + '.tla'), 'w') as f:
            f.write(text)
        for phase, args in (('base', ['--init=Init', '--inv=IndInv', '--length=0']),
                            ('step', ['--init=IndInit', '--inv=IndInv', '--length=1']),
                            ('safety', ['--init=IndInit', '--inv=Safety', '--length=0'])):
            try:
                p = subprocess.run(['apalache-mc', 'check'] + args + ['--out-dir=' + os.path.join(d, 'out'), name + '.tla'],
                                   cwd=d, stdout=subprocess.PIPE, stderr=subprocess.STDOUT, timeout=timeout)
            except (subprocess.TimeoutExpired, OSError) as e:
                return {'ok': False, 'failed_phase': 'tool', 'wall': time.time() - t0, 'detail': repr(e)}
            out = p.stdout.decode('utf-8', 'replace')
            if 'EXITCODE: OK' in out and 'The outcome is: NoError' in out:
                continue
            if 'The outcome is: Error' in out:
                return {'ok': False, 'failed_phase': phase, 'wall': time.time() - t0, 'detail': out[-1500:]}
            return {'ok': False, 'failed_phase': 'tool', 'wall': time.time() - t0, 'detail': out[-1500:]}
        return {'ok': True, 'failed_phase': None, 'wall': time.time() - t0, 'detail': ''}
    finally:
        shutil.rmtree(d, ignore_errors=True)


def run_tlaps(module='DatesProof', mutate=None, timeout=300):
    """TLAPS (tlapm, back end Z3): check the proofs of spec/<module>.tla.  mutate = (old, new): replace text in the copied
    spec files first (the self-test proves that a wrong statement is refused).
    -> {'ok': bool, 'obligations': n proved, 'failed': n, 'wall': seconds, 'detail': str}"""
    import os, re, shutil, subprocess, tempfile, time
    t0 = time.time()
    d = tempfile.mkdtemp(prefix='vtlaps-', dir='/dev/shm' if os.path.isdir('/dev/shm') else None)
    try:
        for f in os.listdir(tlc.SPEC_DIR):
            if f.endswith('.tla'):
                text = open(os.path.join(tlc.SPEC_DIR, f)).read()
                if mutate and mutate[0] in text:
                    text = text.replace(mutate[0], mutate[1])
                with open(os.path.join(d, f), 'w') as g:
                    g.write(text)
        import signal
        # tlapm in a process group of its own: the back-end provers it starts (z3) can outlive it when an obligation does not
        # go through, so the whole group is killed once tlapm has answered
        pr = subprocess.Popen(['tlapm', '--threads', '8', '--nofp', module + '.tla'], cwd=d, stdout=subprocess.PIPE,
                              stderr=subprocess.STDOUT, start_new_session=True)
        try:
            outb, _ = pr.communicate(timeout=timeout)
        except (subprocess.TimeoutExpired, OSError) as e:
            try:
                os.killpg(pr.pid, signal.SIGKILL)
            except OSError:
                pass
            pr.wait()
            return {'ok': False, 'obligations': 0, 'failed': -1, 'wall': time.time() - t0, 'detail': repr(e)}
        finally:
            try:
                os.killpg(pr.pid, signal.SIGKILL)
            except OSError:
                pass
        p = pr
        out = outb.decode('utf-8', 'replace')
        m = re.search(r'All (\d+) obligations? proved', out)
        if m and p.returncode == 0:
            return {'ok': True, 'obligations': int(m.group(1)), 'failed': 0, 'wall': time.time() - t0, 'detail': ''}
        m = re.search(r'(\d+)/(\d+) obligations? failed', out)
        return {'ok': False, 'obligations': int(m.group(2)) - int(m.group(1)) if m else 0, 'failed': int(m.group(1)) if m else -1,
                'wall': time.time() - t0, 'detail': out[-1500:]}
    finally:
        shutil.rmtree(d, ignore_errors=True)


def run_putempty(name, with_days=True, emutant='none', invariants=('FreshKept', 'FreshInfoFirst'), procs=('p1',), slots=('n', 'n1'),
                 preinfo=(('t', 'n1'),), prepay=(('t', 'n1'),), workers=4, timeout=900):
    """trash-put concurrent with trash-empty [DAYS] (spec/PutEmpty.tla)"""
    mod = putops_module('MC_' + name, procs=procs, cands=('t',), slots=slots, rand=(), preinfo=preinfo, prepay=prepay,
                        dirs_exist=('t',)).replace('EXTENDS PutOps', 'EXTENDS PutEmpty')
    cfg = ('INIT EInit\nNEXT ENext\n'
           'CONSTANTS Procs <- MC_Procs Cands <- MC_Cands Slots <- MC_Slots RandSlots <- MC_RandSlots\n'
           'CONSTANTS PreInfo <- MC_PreInfo PrePay <- MC_PrePay DirsExist <- MC_DirsExist CopyCands <- MC_CopyCands\n'
           'CONSTANTS Sticky <- MC_Sticky TooLong <- MC_TooLong MaxFaults = 0 Mutant = "none"\n'
           'CONSTANTS WithDays = %s EMutant = "%s"\n' % ('TRUE' if with_days else 'FALSE', emutant))
    for i in invariants:
        cfg += 'INVARIANT %s\n' % i
    cfg += 'CHECK_DEADLOCK FALSE\n'
    return tlc.run_tlc('MC_' + name, cfg_text=cfg, workers=workers, timeout=timeout, extra_files={'MC_%s.tla' % name: mod})


def validate_put_state_traces(traces, procs, cands=('t1',), preinfo=(), prepay=(), dirs_exist=(), copy_cands=(), toolong=(),
                              file_procs=(), link_procs=(), extra_slots=(), workers=4, timeout=900):
    """traces: list of sequences of distinct observed states {parts, info, pay, src} of ONE scenario
    -> (TlcResult, accepted 1-based ids)"""
    import json, os, re, shutil, tempfile
    slots = ['n'] + ['n%d' % i for i in range(1, 6)]
    mod = '''---- MODULE MC_PutStateTrace ----
EXTENDS PutStateTrace
MC_Procs == %s
MC_Cands == <<%s>>
MC_Slots == <<%s>>
MC_RandSlots == %s
MC_PreInfo == %s
MC_PrePay == %s
MC_DirsExist == %s
MC_CopyCands == %s
MC_TooLong == %s
MC_FileProcs == %s
MC_LinkProcs == %s
MC_Empty == {}
====
''' % (tla_set(map(tla_str, procs)), ', '.join(map(tla_str, cands)), ', '.join(map(tla_str, slots)), tla_set(map(tla_str, extra_slots)),
       tla_pairs(preinfo), tla_pairs(prepay), tla_set(map(tla_str, dirs_exist)), tla_set(map(tla_str, copy_cands)),
       tla_set(map(tla_str, toolong)), tla_set(map(tla_str, file_procs)), tla_set(map(tla_str, link_procs)))
    cfg = ('INIT InitT\nNEXT NextT\nCONSTANTS Procs <- MC_Procs Cands <- MC_Cands Slots <- MC_Slots RandSlots <- MC_RandSlots\n'
           'CONSTANTS PreInfo <- MC_PreInfo PrePay <- MC_PrePay DirsExist <- MC_DirsExist CopyCands <- MC_CopyCands Sticky <- MC_Empty\n'
           'CONSTANTS TooLong <- MC_TooLong FileProcs <- MC_FileProcs LinkProcs <- MC_LinkProcs MaxFaults = 0 Mutant = "none"\n'
           'INVARIANT ReportAccept\nINVARIANT NoOverwrite\nINVARIANT UniqueOwnership\nINVARIANT InfoBeforePayload\n'
           'INVARIANT NothingLost\nCHECK_DEADLOCK FALSE\n')
    d = tempfile.mkdtemp(prefix='vst-', dir='/dev/shm' if os.path.isdir('/dev/shm') else None)
    try:
        p = os.path.join(d, 'traces.json')
        with open(p, 'w') as f:
            json.dump(traces, f)
        res = tlc.run_tlc('MC_PutStateTrace', cfg_text=cfg, workers=workers, timeout=timeout, env={'TRACE_FILE': p},
                          extra_files={'MC_PutStateTrace.tla': mod})
        acc = set(int(m.group(1)) for m in re.finditer(r'<<"##ACCEPT", (\d+)>>', res.raw))
        return res, acc
    finally:
        shutil.rmtree(d, ignore_errors=True)

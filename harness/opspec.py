"""Model checking of the operation-level specifications (PutOps / PurgeOps) with generated MC wrappers."""
from __future__ import annotations

from harness import tlc


def tla_set(xs):
    return '{' + ', '.join(xs) + '}'


def tla_str(s):
    return '"%s"' % s


def tla_pairs(ps):
    return tla_set('<<%s, %s>>' % (tla_str(a), tla_str(b)) for a, b in ps)


def putops_module(name, procs=('p1', 'p2'), cands=('t',), slots=('n', 'n1', 'n2'), rand=('r1', 'r2'), preinfo=(), prepay=(),
                  dirs_exist=(), copy_cands=(), max_faults=0, sticky=(), mutant='none'):
    return '''---- MODULE %s ----
EXTENDS PutOps
MC_Procs == %s
MC_Cands == <<%s>>
MC_Slots == <<%s>>
MC_RandSlots == %s
MC_PreInfo == %s
MC_PrePay == %s
MC_DirsExist == %s
MC_CopyCands == %s
MC_Sticky == %s
====
''' % (name, tla_set(map(tla_str, procs)), ', '.join(map(tla_str, cands)), ', '.join(map(tla_str, slots)),
       tla_set(map(tla_str, rand)), tla_pairs(preinfo), tla_pairs(prepay), tla_set(map(tla_str, dirs_exist)),
       tla_set(map(tla_str, copy_cands)), tla_pairs(sticky))


def putops_cfg(max_faults=0, mutant='none', invariants=(), liveness=True):
    lines = ['SPECIFICATION Spec',
             'CONSTANTS Procs <- MC_Procs Cands <- MC_Cands Slots <- MC_Slots RandSlots <- MC_RandSlots',
             'CONSTANTS PreInfo <- MC_PreInfo PrePay <- MC_PrePay DirsExist <- MC_DirsExist CopyCands <- MC_CopyCands',
             'CONSTANTS Sticky <- MC_Sticky MaxFaults = %d Mutant = "%s"' % (max_faults, mutant)]
    for i in invariants:
        lines.append('INVARIANT %s' % i)
    if liveness:
        lines.append('PROPERTY Termination')
    lines.append('CHECK_DEADLOCK FALSE')
    return '\n'.join(lines) + '\n'


SAFETY = ['TypeOK', 'NoOverwrite', 'UniqueOwnership', 'InfoBeforePayload', 'NothingLost', 'FinalStateIsC01', 'AllSucceed', 'PreKept']


def run_putops(name, invariants=SAFETY, liveness=True, workers=8, timeout=1500, **kw):
    mf = kw.pop('max_faults', 0)
    mutant = kw.pop('mutant', 'none')
    mod = putops_module('MC_' + name, **kw)
    return tlc.run_tlc('MC_' + name, cfg_text=putops_cfg(mf, mutant, invariants, liveness), workers=workers, timeout=timeout,
                       extra_files={'MC_%s.tla' % name: mod})


INV_NAMES = ['NoOverwrite', 'UniqueOwnership', 'InfoBeforePayload', 'NothingLost', 'FinalStateIsC01', 'AllSucceed', 'NoGarbage']


def judge_states(obs, workers=4, timeout=1800):
    """obs: list of {state, done, res, faulty, strayleft}.  TLC (FsTrace) evaluates the invariants of PutOps on each.
    -> (TlcResult, {1-based index: {invariant: bool}})"""
    import json, os, re, shutil, tempfile
    # the invariants do not depend on slot names: rename the slots of each observation to s1..sk (keeps the
    # constant universe small); an observation with more than 40 slots is truncated and flagged by the caller
    renamed = []
    kmax = 1
    for o in obs:
        names = sorted(set(a for m in (o['state']['info'], o['state']['pay']) for t in m for a in m[t]))
        mp = {a: 's%d' % (i + 1) for i, a in enumerate(names[:40])}
        kmax = max(kmax, len(mp))
        st = dict(o['state'])
        for key in ('info', 'pay'):
            st[key] = {t: {mp[a]: v for a, v in o['state'][key][t].items() if a in mp} for t in o['state'][key]}
        renamed.append(dict(o, state=st))
    obs = renamed
    slots = set('s%d' % (i + 1) for i in range(kmax))
    mod = '''---- MODULE MC_FsTrace ----
EXTENDS FsTrace
MC_Procs == {"p1", "p2", "p3"}
MC_Cands == <<"t1", "t2", "t3">>
MC_Slots == << >>
MC_RandSlots == %s
MC_Empty == {}
====
''' % tla_set(map(tla_str, sorted(slots)))
    cfg = ('INIT InitF\nNEXT NextF\nCONSTANTS Procs <- MC_Procs Cands <- MC_Cands Slots <- MC_Slots RandSlots <- MC_RandSlots\n'
           'CONSTANTS PreInfo <- MC_Empty PrePay <- MC_Empty DirsExist <- MC_Empty CopyCands <- MC_Empty Sticky <- MC_Empty\n'
           'CONSTANTS MaxFaults = 0 Mutant = "none"\nCHECK_DEADLOCK FALSE\n')
    d = tempfile.mkdtemp(prefix='vfs-', dir='/dev/shm' if os.path.isdir('/dev/shm') else None)
    try:
        p = os.path.join(d, 'obs.json')
        slim = [{'state': {k: o['state'][k] for k in ('parts', 'info', 'pay', 'src', 'clobbered')}, 'done': o.get('done', {}),
                 'res': o.get('res', {}), 'faulty': bool(o.get('faulty')), 'strayleft': bool(o.get('strayleft'))} for o in obs]
        with open(p, 'w') as f:
            json.dump(slim, f)
        res = tlc.run_tlc('MC_FsTrace', cfg_text=cfg, workers=workers, timeout=timeout, env={'TRACE_FILE': p},
                          extra_files={'MC_FsTrace.tla': mod})
        verdicts = {}
        for m in re.finditer(r'<<\s*"##INV",\s*(\d+),\s*(TRUE|FALSE),\s*(TRUE|FALSE),\s*(TRUE|FALSE),\s*(TRUE|FALSE),\s*(TRUE|FALSE),\s*(TRUE|FALSE),\s*(TRUE|FALSE)\s*>>', res.raw):
            verdicts[int(m.group(1))] = dict(zip(INV_NAMES, [g == 'TRUE' for g in m.groups()[1:]]))
        return res, verdicts
    finally:
        shutil.rmtree(d, ignore_errors=True)


def run_purgeops(name, cmd='empty', entries=('e1', 'e2', 'e3'), trees=('e2',), orphans=('o1',), selected=('e1', 'e2'),
                 crossvol=(), mutant='none', workers=4, timeout=900):
    mod = '''---- MODULE MC_%s ----
EXTENDS PurgeOps
MC_Entries == %s
MC_Trees == %s
MC_Orphans == %s
MC_Selected == %s
MC_CrossVol == %s
====
''' % (name, tla_set(map(tla_str, entries)), tla_set(map(tla_str, trees)), tla_set(map(tla_str, orphans)),
       tla_set(map(tla_str, selected)), tla_set(map(tla_str, crossvol)))
    cfg = ('SPECIFICATION Spec\nCONSTANTS Entries <- MC_Entries Trees <- MC_Trees Orphans <- MC_Orphans Selected <- MC_Selected '
           'CrossVol <- MC_CrossVol\nCONSTANTS Cmd = "%s" Mutant = "%s"\n'
           'INVARIANT InfoLast\nINVARIANT RestoreNeverLoses\nINVARIANT FrameOK\nINVARIANT DoneOK\nPROPERTY RerunCompletes\n'
           'CHECK_DEADLOCK FALSE\n' % (cmd, mutant))
    return tlc.run_tlc('MC_' + name, cfg_text=cfg, workers=workers, timeout=timeout, extra_files={'MC_%s.tla' % name: mod})


PURGE_INV = ['InfoLast', 'RestoreNeverLoses', 'Frame', 'DoneOK', 'Purged']


def judge_purge(obs, workers=4, timeout=900):
    import json, os, re, shutil, tempfile
    mod = '''---- MODULE MC_PurgeTrace ----
EXTENDS PurgeTrace
MC_Entries == {"e1", "e2", "e3", "e4"}
MC_Trees == {"e2"}
MC_Orphans == {"o1", "o2"}
MC_Empty == {}
====
'''
    cfg = ('INIT InitP\nNEXT NextP\nCONSTANTS Entries <- MC_Entries Trees <- MC_Trees Orphans <- MC_Orphans Selected <- MC_Empty '
           'CrossVol <- MC_Empty\nCONSTANTS Cmd = "any" Mutant = "none"\nCHECK_DEADLOCK FALSE\n')
    d = tempfile.mkdtemp(prefix='vpg-', dir='/dev/shm' if os.path.isdir('/dev/shm') else None)
    try:
        p = os.path.join(d, 'obs.json')
        with open(p, 'w') as f:
            json.dump([{k: o[k] for k in ('info', 'pay', 'dest', 'done', 'cmd', 'selected', 'purged')} for o in obs], f)
        res = tlc.run_tlc('MC_PurgeTrace', cfg_text=cfg, workers=workers, timeout=timeout, env={'TRACE_FILE': p},
                          extra_files={'MC_PurgeTrace.tla': mod})
        verdicts = {}
        for m in re.finditer(r'<<\s*"##INV",\s*(\d+),\s*(TRUE|FALSE),\s*(TRUE|FALSE),\s*(TRUE|FALSE),\s*(TRUE|FALSE),\s*(TRUE|FALSE)\s*>>', res.raw):
            verdicts[int(m.group(1))] = dict(zip(PURGE_INV, [g == 'TRUE' for g in m.groups()[1:]]))
        return res, verdicts
    finally:
        shutil.rmtree(d, ignore_errors=True)

"""Common machinery of the registered checks: accounting, verdicts, known
findings, replay files, evidence."""
from __future__ import annotations

import hashlib
import json
import os
import re
import sys
import time

VERIF = os.path.dirname(os.path.dirname(os.path.abspath(__file__)))
EVID = os.path.join(VERIF, 'evidence')
REPLAYS = os.path.join(VERIF, 'replays')
KNOWN = os.path.join(VERIF, 'known_findings.json')


def load_known():
    try:
        return json.load(open(KNOWN))['findings']
    except (IOError, ValueError, KeyError):
        return []


class Check(object):
    def __init__(self, pid, tier, seed):
        self.pid = pid
        self.tier = tier
        self.seed = seed
        self.t0 = time.time()
        self.states = 0
        self.transitions = 0
        self.tlc_runs = []
        self.evaluations = 0
        self.nontrivial = set()
        self.traces = 0
        self.samples = []
        self.violations = []
        self.known_hits = {}
        self.machinery = []
        self.assumptions = []
        self.notes = []
        self.exhaustive = False
        self.coverage_actions = {}
        self.stage_stats = {}
        self.known = [k for k in load_known() if k.get('property') == pid]
        self.rule = ''

    # ---- accounting ------------------------------------------------------------
    def add_tlc(self, name, res, constants=None):
        self.states += res.distinct
        self.transitions += res.generated
        self.tlc_runs.append({'config': name, 'distinct_states': res.distinct, 'states_generated': res.generated,
                              'depth': res.depth, 'wall_s': round(res.wall, 2), 'ok': res.ok,
                              'constants': constants or ''})
        for k, v in res.coverage.items():
            self.coverage_actions[k] = self.coverage_actions.get(k, 0) + v[1]
        if not res.ok:
            if res.violated:
                self.violation('tlc:%s:%s' % (name, res.violated),
                               'TLC refutes %s on the specification (%s)' % (res.violated, name),
                               {'tlc_tail': res.raw[-3000:]})
            else:
                self.machinery.append('TLC run %s failed: %s\n%s' % (name, res.error, res.raw[-2000:]))

    def count(self, stage, n=1, key=None, nontrivial=False):
        self.evaluations += n
        s = self.stage_stats.setdefault(stage, {'evaluations': 0, 'nontrivial': 0})
        s['evaluations'] += n
        if nontrivial and key is not None:
            h = hashlib.sha1((stage + '|' + key).encode('utf-8', 'replace')).hexdigest()
            if h not in self.nontrivial:
                self.nontrivial.add(h)
                s['nontrivial'] += 1

    def sample(self, x, limit=6):
        if len(self.samples) < limit:
            self.samples.append(x)

    # ---- verdicts ---------------------------------------------------------------------
    def violation(self, key, what, case):
        """Record a violation.  key identifies the failing input class precisely."""
        for k in self.known:
            if k.get('status') == 'known' and re.fullmatch(k['key'], key):
                hit = self.known_hits.setdefault(k['key'], {'entry': k, 'n': 0, 'example': what})
                hit['n'] += 1
                return 'known'
        self.violations.append({'key': key, 'what': what, 'case': case})
        return 'new'

    def write_replay(self, v):
        os.makedirs(REPLAYS, exist_ok=True)
        body = json.dumps({'property': self.pid, 'key': v['key'], 'what': v['what'], 'case': v['case'],
                           'seed': self.seed, 'tier': self.tier}, indent=1, sort_keys=True, default=repr)
        h = hashlib.sha1(body.encode()).hexdigest()[:12]
        p = os.path.join(REPLAYS, '%s-%s.json' % (self.pid, h))
        with open(p, 'w') as f:
            f.write(body)
        return p

    def finish(self, level='model_checking'):
        wall = time.time() - self.t0
        os.makedirs(EVID, exist_ok=True)
        for key, hit in sorted(self.known_hits.items()):
            print('KNOWN-FINDING: property=%s %s (%d occurrence(s) in this run; key %s)' % (
                self.pid, hit['entry'].get('description', hit['example']), hit['n'], key))
        seen = set()
        paths = []
        for v in self.violations:
            if v['key'] in seen:
                continue
            seen.add(v['key'])
            if len(paths) < 25:
                p = self.write_replay(v)
                paths.append(p)
                print('VIOLATION property=%s replay=%s' % (self.pid, p))
                print('  %s: %s' % (v['key'], v['what'][:600]))
        cov = {
            'states': self.states, 'transitions': self.transitions,
            'traces_validated_against_impl': self.traces,
            'samples': self.samples or [{'note': 'no case was run'}],
            'evaluations': self.evaluations,
            'distinct_nontrivial': len(self.nontrivial),
            'rule': self.rule,
            'exhaustive': bool(self.exhaustive and all(s.get('all_executed', True) for s in self.stage_stats.values())),
            'tlc_runs': self.tlc_runs,
            'stages': self.stage_stats,
            'action_coverage': self.coverage_actions,
            'known_findings_hit': [{'key': k, 'occurrences': h['n']} for k, h in sorted(self.known_hits.items())],
            'violation_keys': sorted(seen),
            'notes': self.notes,
        }
        ev = {'property_id': self.pid, 'tier': self.tier, 'seed': self.seed, 'level': level,
              'coverage': cov, 'assumptions': self.assumptions, 'wall_s': round(wall, 2),
              'violations': len(seen)}
        with open(os.path.join(EVID, '%s.json' % self.pid), 'w') as f:
            json.dump(ev, f, indent=1, default=repr)
        if self.machinery:
            for m in self.machinery[:5]:
                print('MACHINERY-FAILURE: %s' % m[:3000])
            # a violation that was demonstrated stands, whatever else went wrong in the run (a change that makes a kill
            # point unreachable usually breaks the property at the neighbouring ones)
            return 1 if seen else 2
        if seen:
            return 1
        print('OK property=%s tier=%s seed=%d: %d TLC states, %d transitions, %d real executions judged, %.1fs' % (
            self.pid, self.tier, self.seed, self.states, self.transitions, self.traces, wall))
        return 0


def stratified_sample(items, keyfn, per_stratum, total, rnd):
    """pick items so that every stratum (keyfn) gets up to per_stratum, then fill up to total at random"""
    strata = {}
    for it in items:
        strata.setdefault(keyfn(it), []).append(it)
    picked = []
    rest = []
    for k in sorted(strata, key=str):
        lst = strata[k]
        rnd.shuffle(lst)
        picked += lst[:per_stratum]
        rest += lst[per_stratum:]
    if len(picked) < total:
        rnd.shuffle(rest)
        picked += rest[:total - len(picked)]
    return picked

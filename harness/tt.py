"""Transition tests and behaviour replay: TLC-generated edges / behaviours of
spec/Trash.tla are executed by the real commands on a real file system and the
projection of the result is compared with the specification's post-state."""
from __future__ import annotations

import hashlib
import json
import multiprocessing
import os
import sys
import time
import traceback

from harness import ops, runner, world

STATE_KEYS = ['live', 'dirs', 'tex', 'items', 'orph', 'strays', 'junk']


def state_view(st):
    return world.canon({k: st[k] for k in STATE_KEYS})


OUTPUT_KEYS = ('exit', 'ocs', 'listing', 'lines', 'diag', 'printed')


def op_key(lab):
    """identity of the operation: the label minus its outputs"""
    return json.dumps(world.canon({k: v for k, v in lab.items()
                                   if k not in ('exit', 'ocs', 'listing', 'lines', 'diag', 'printed')}), sort_keys=True)


def group_edges(edges):
    """group edges by (cfg, pre, op): the members of a group are the outcomes the specification allows"""
    groups = {}
    order = []
    for e in edges:
        # TLC prints sets in its own normal form, so equal values have equal text
        k = hashlib.sha1((json.dumps(e['cfg'], sort_keys=True) + '|' + json.dumps(e['pre'], sort_keys=True) + '|' +
                          json.dumps({k2: v for k2, v in e['lab'].items() if k2 not in OUTPUT_KEYS}, sort_keys=True)
                          ).encode()).hexdigest()
        if k not in groups:
            groups[k] = {'cfg': e['cfg'], 'pre': e['pre'], 'lab': e['lab'], 'allowed': []}
            order.append(k)
        groups[k]['allowed'].append({'lab': e['lab'], 'post': e['post']})
    return [groups[k] for k in order]


def bag(lines):
    return sorted(json.dumps({k: v for k, v in l.items() if k != 'o'}, sort_keys=True) for l in lines)


def out_matches(cmd, obs, lab):
    """-> list of differences between the observed outputs and the label's outputs"""
    diffs = []
    want_exit = lab.get('exit', 'ok')
    if want_exit != 'any' and obs['exit'] != want_exit:
        diffs.append('exit: observed %s, specification %s' % (obs['exit'], want_exit))
    if want_exit == 'any' and obs['exit'] not in ('ok', 'fail'):
        diffs.append('exit: observed %s' % obs['exit'])
    if cmd == 'list':
        if bag(obs['lines']) != bag(lab['lines']):
            diffs.append('listing: observed %s, specification %s' % (bag(obs['lines']), bag(lab['lines'])))
        if sorted(obs['diag']) != sorted(lab['diag']):
            diffs.append('skipped-directory reports: observed %s, specification %s' % (sorted(obs['diag']), sorted(lab['diag'])))
        if obs['unparsed']:
            diffs.append('unparsed output records: %r' % obs['unparsed'][:3])
    elif cmd == 'restore':
        if obs['listing'] != lab['listing']:
            diffs.append('restore listing: observed %s, specification %s' % (obs['listing'], lab['listing']))
        if obs['unparsed']:
            diffs.append('unparsed listing records: %r' % obs['unparsed'][:3])
    elif cmd == 'empty':
        a = sorted(json.dumps(x, sort_keys=True) for x in obs['printed'])
        b = sorted(json.dumps(x, sort_keys=True) for x in lab['printed'])
        if a != b:
            diffs.append('dry-run output: observed %s, specification %s' % (a, b))
        if lab['opts']['dry'] and obs['unparsed']:
            diffs.append('unparsed dry-run output: %r' % obs['unparsed'][:3])
    return diffs


def diff_states(obs, want, tex_superset=False):
    """tex_superset: a command that creates trash directories on demand (trash-put) may leave an
    empty trash directory behind for a candidate it tried; the properties do not forbid that."""
    diffs = []
    for k in STATE_KEYS:
        a = world.canon(obs[k])
        b = world.canon(want[k])
        if k == 'tex' and tex_superset and set(b) <= set(a):
            continue
        if a != b:
            sa = set(json.dumps(x, sort_keys=True) for x in a)
            sb = set(json.dumps(x, sort_keys=True) for x in b)
            diffs.append('%s: only observed %s; only in specification %s' % (k, sorted(sa - sb), sorted(sb - sa)))
    return diffs


def run_group(g, seed, opts=None):
    """materialise, run, project, compare.  -> result dict (JSON-able)"""
    opts = opts or {}
    conc = world.Conc(seed, **opts.get('conc', {}))
    w = world.World(conc, g['cfg'])
    res = {'seed': seed, 'lab': g['lab'], 'status': 'ok', 'diffs': [], 'cfg': g['cfg']}
    try:
        w.materialise(g['pre'], slot_style=opts.get('slot_style', 0))
        if opts.get('selfcheck', True):
            st0, an0, sl0 = w.project()
            d0 = diff_states(st0, g['pre'])
            if d0 or an0:
                res['status'] = 'machinery'
                res['diffs'] = ['materialise/project self-check failed'] + d0 + an0
                return res
        else:
            sl0 = None
        r = ops.OpRunner(w, seed=seed, shim_extra=opts.get('shim', {}))
        kw = {}
        if g['lab']['cmd'] == 'put' and opts.get('spellings'):
            kw['spellings'] = opts['spellings']
        if g['lab']['cmd'] == 'empty' and opts.get('tty'):
            kw['tty'] = True
        obs, raw = r.run(g['lab'], g['pre'], slots=sl0, **kw)
        st1, an1, sl1 = w.project()
        res['obs'] = obs
        if raw is not None:
            res['run'] = {'argv': raw.get('argv'), 'cwd': raw.get('cwd'), 'exit': raw.get('exit'),
                          'stdout': raw['stdout'][-600:].decode('utf-8', 'backslashreplace'),
                          'stderr': raw['stderr'][-1500:].decode('utf-8', 'backslashreplace'),
                          'spelled': raw.get('spelled'), 'stdin': raw.get('stdin'), 'pattern': raw.get('pattern')}
            if (opts.get('shim') or {}).get('trace'):
                res['mut'] = [[e['op'], e['raw'], e['res'], [w.classify(p) for p in e['raw']]] for e in raw.get('trace', [])
                              if e['op'] in ('mkdir', 'open_w', 'open_excl', 'write', 'rename', 'replace', 'link', 'symlink',
                                             'unlink', 'rmdir', 'chmod', 'utime', 'truncate', 'sendfile', 'setxattr')]
            esc = [e for e in raw.get('trace', []) if e.get('res') == 'ESCAPE']
            if esc:
                an1 = an1 + ['escape: %s %s' % (e['op'], e.get('escape')) for e in esc[:3]]
        best = None
        for al in g['allowed']:
            d = diff_states(st1, al['post'], tex_superset=(g['lab']['cmd'] == 'put')) + out_matches(g['lab']['cmd'], obs, al['lab'])
            if best is None or len(d) < len(best):
                best = d
            if not d:
                break
        diffs = (best or []) + an1
        if g['lab']['cmd'] == 'put' and raw is not None:
            diffs += put_diag_check(g, raw)
        if diffs:
            res['status'] = 'mismatch'
            res['diffs'] = diffs
            res['observed_state'] = st1
        res['nontrivial'] = (state_view(g['pre']) != state_view(g['allowed'][0]['post'])) or g['lab'].get('exit') == 'fail'
        res['names'] = {k: v.decode('utf-8', 'backslashreplace') for k, v in conc.names.items()}
        return res
    except Exception:
        res['status'] = 'machinery'
        res['diffs'] = [traceback.format_exc()]
        return res
    finally:
        w.destroy()


def put_diag_check(g, raw):
    """C16: a failed argument is named by a diagnostic on stderr; a run that failed says so on stderr."""
    diffs = []
    lab = g['allowed'][0]['lab']
    err = raw['stderr']
    for k, oc in enumerate(lab['ocs']):
        if oc == 'failed':
            ab = raw['argbytes'][k]
            variants = [ab, ab.decode('utf-8', 'backslashreplace').encode(), repr(os.fsdecode(ab))[1:-1].encode(),
                        ab.decode('utf-8', 'surrogateescape').encode('utf-8', 'backslashreplace')]
            if not any(v in err for v in variants):
                diffs.append('failed argument %r is not named on stderr' % ab)
    return diffs


# ---- parallel driver --------------------------------------------------------------

def _init():
    runner.prepare()


def _work(job):
    g, seed, opts = job
    return run_group(g, seed, opts)


_POOL = [None, 0]


def get_pool(procs):
    """a pool of lean, spawned workers (forking a command from a worker that inherited a large parent heap
    costs milliseconds of page-table copying per command)"""
    if _POOL[0] is None or _POOL[1] != procs:
        close_pool()
        ctx = multiprocessing.get_context('spawn')
        _POOL[0] = ctx.Pool(procs, initializer=_init)
        _POOL[1] = procs
    return _POOL[0]


def close_pool():
    if _POOL[0] is not None:
        _POOL[0].close()
        _POOL[0].join()
        _POOL[0] = None


def run_groups(jobs, procs=None):
    """jobs: list of (group, seed, opts) -> list of results (same order)"""
    procs = procs or min(16, os.cpu_count() or 4)
    if procs == 1 or len(jobs) < 4:
        _init()
        return [_work(j) for j in jobs]
    pool = get_pool(procs)
    return pool.map(_work, jobs, chunksize=max(1, min(40, len(jobs) // (procs * 4) or 1)))

"""Transition tests and behaviour replay: TLC-generated edges / behaviours of
spec/Trash.tla are executed by the real commands on a real file system and the
projection of the result is compared with the specification's post-state."""
from __future__ import annotations

import hashlib
import json
import multiprocessing
import os
import sys
import time
import traceback

from harness import ops, runner, world

STATE_KEYS = ['live', 'dirs', 'tex', 'items', 'orph', 'strays', 'junk']


def state_view(st):
    return world.canon({k: st[k] for k in STATE_KEYS})


OUTPUT_KEYS = ('exit', 'ocs', 'listing', 'lines', 'diag', 'printed', 'printedDev', 'undef', 'sundef')


def op_key(lab):
    """identity of the operation: the label minus its outputs"""
    return json.dumps(world.canon({k: v for k, v in lab.items()
                                   if k not in OUTPUT_KEYS}), sort_keys=True)


def group_edges(edges):
    """group edges by (cfg, pre, op): the members of a group are the outcomes the specification allows"""
    groups = {}
    order = []
    for e in edges:
        # TLC prints sets in its own normal form, so equal values have equal text
        k = hashlib.sha1((json.dumps(e['cfg'], sort_keys=True) + '|' + json.dumps(e['pre'], sort_keys=True) + '|' +
                          json.dumps({k2: v for k2, v in e['lab'].items() if k2 not in OUTPUT_KEYS}, sort_keys=True)
                          ).encode()).hexdigest()
        if k not in groups:
            groups[k] = {'cfg': e['cfg'], 'pre': e['pre'], 'lab': e['lab'], 'allowed': []}
            order.append(k)
        groups[k]['allowed'].append({'lab': e['lab'], 'post': e['post']})
    return [groups[k] for k in order]


def bag(lines):
    return sorted(json.dumps({k: v for k, v in l.items() if k != 'o'}, sort_keys=True) for l in lines)


def out_matches(cmd, obs, lab):
    """-> list of differences between the observed outputs and the label's outputs"""
    diffs = []
    want_exit = lab.get('exit', 'ok')
    # an uncaught exception ends the process with a non-zero status: as an exit status it is a failure
    # (what it prevented from happening shows in the state and the outputs)
    got_exit = 'fail' if obs['exit'] == 'crash' else obs['exit']
    if want_exit != 'any' and got_exit != want_exit:
        diffs.append('exit: observed %s, specification %s' % (obs['exit'], want_exit))
    if want_exit == 'any' and obs['exit'] not in ('ok', 'fail', 'crash'):
        diffs.append('exit: observed %s' % obs['exit'])
    if cmd == 'list':
        if bag(obs['lines']) != bag(lab['lines']):
            diffs.append('listing: observed %s, specification %s' % (bag(obs['lines']), bag(lab['lines'])))
        if sorted(obs['diag']) != sorted(lab['diag']):
            diffs.append('skipped-directory reports: observed %s, specification %s' % (sorted(obs['diag']), sorted(lab['diag'])))
        if obs['unparsed']:
            diffs.append('unparsed output records: %r' % obs['unparsed'][:3])
        if obs.get('size'):
            # --size: every entry that has a payload (o > 0) is listed at its location; entries without payload may be
            loc = lambda l: json.dumps({k: l[k] for k in ('r', 'd', 'n')}, sort_keys=True)
            want = sorted(loc(l) for l in lab['lines'] if l.get('o', 1) > 0)
            may = sorted(loc(l) for l in lab['lines'])
            got = sorted(loc(l) for l in obs['size']['locs'])
            import collections
            cg, cw, cm = collections.Counter(got), collections.Counter(want), collections.Counter(may)
            if (cw - cg) or (cg - cm) or obs['size']['exit'] != 'ok':
                diffs.append('trash-list --size: exit %s, locations listed %s, entries with payload %s | %s' % (
                    obs['size']['exit'], got, want, obs['size']['stderr'][-200:]))
    elif cmd == 'listdirs':
        for k in ('found', 'notsticky', 'symlink', 'volumes'):
            if sorted(obs[k]) != sorted(lab[k]):
                diffs.append('trash-list --%s, %s: observed %s, specification %s' % (
                    'volumes' if k == 'volumes' else 'trash-dirs', k, sorted(obs[k]), sorted(lab[k])))
        if obs['unparsed']:
            diffs.append('unparsed --trash-dirs / --volumes lines: %r' % obs['unparsed'][:3])
    elif cmd == 'restore':
        if obs['listing'] != lab['listing']:
            diffs.append('restore listing: observed %s, specification %s' % (obs['listing'], lab['listing']))
        if obs['unparsed']:
            diffs.append('unparsed listing records: %r' % obs['unparsed'][:3])
    elif cmd == 'empty':
        a = sorted(json.dumps(x, sort_keys=True) for x in obs['printed'])
        b = sorted(json.dumps(x, sort_keys=True) for x in lab['printed'])
        bdev = sorted(json.dumps(x, sort_keys=True) for x in lab.get('printedDev', lab['printed']))
        if a != b:
            if a == bdev:
                diffs.append('known-deviation dry-run-prints-absent-payload: observed %s, specification %s' % (a, b))
            else:
                diffs.append('dry-run output: observed %s, specification %s' % (a, b))
        if lab['opts']['dry'] and obs['unparsed']:
            diffs.append('unparsed dry-run output: %r' % obs['unparsed'][:3])
    return diffs


def diff_states(obs, want, tex_superset=False):
    """tex_superset: a command that creates trash directories on demand (trash-put) may leave an
    empty trash directory behind for a candidate it tried; the properties do not forbid that."""
    diffs = []
    for k in STATE_KEYS:
        a = world.canon(obs[k])
        b = world.canon(want[k])
        if k == 'tex' and tex_superset and set(b) <= set(a):
            continue
        if a != b:
            sa = set(json.dumps(x, sort_keys=True) for x in a)
            sb = set(json.dumps(x, sort_keys=True) for x in b)
            diffs.append('%s: only observed %s; only in specification %s' % (k, sorted(sa - sb), sorted(sb - sa)))
    return diffs


def purge_tolerance(w, lab, st1, an1, post):
    """No listed property says that an EMPTIED trash directory must stay: a real purge (trash-rm, or trash-empty that is
    neither a dry run nor declined) may remove the whole skeleton (dir, files/, info/) of a trash directory that holds
    nothing afterwards.  Such a directory is then counted as existing-and-empty."""
    if lab['cmd'] not in ('empty', 'rm'):
        return st1, an1
    if lab['cmd'] == 'empty' and (lab['opts']['dry'] or lab['opts']['consent'] == 'no'):
        return st1, an1
    holds = lambda st, t: any(x.get('t') == t for k in ('items', 'orph', 'strays', 'junk') for x in st[k])
    gone = [t for t in post['tex'] if t not in st1['tex'] and not holds(post, t) and not holds(st1, t)]
    if not gone:
        return st1, an1
    rootb = os.fsencode(w.root)
    skel = set()
    for t in gone:
        tp = os.fsencode(w.tpath_real(t))[len(rootb) + 1:]
        skel |= {repr(tp), repr(tp + b'/files'), repr(tp + b'/info')}
    an = [a for a in an1 if not (a.startswith('outside entry vanished: ') and a[len('outside entry vanished: '):] in skel)]
    w.virtual_tex |= set(gone)
    return dict(st1, tex=list(st1['tex']) + gone), an


def run_group(g, seed, opts=None):
    """materialise, run, project, compare.  -> result dict (JSON-able)"""
    opts = opts or {}
    conc = world.Conc(seed, **opts.get('conc', {}))
    w = world.World(conc, g['cfg'])
    res = {'seed': seed, 'lab': g['lab'], 'status': 'ok', 'diffs': [], 'cfg': g['cfg']}
    try:
        w.materialise(g['pre'], slot_style=opts.get('slot_style', 0))
        if opts.get('selfcheck', True):
            st0, an0, sl0 = w.project()
            d0 = diff_states(st0, g['pre'])
            if d0 or an0:
                res['status'] = 'machinery'
                res['diffs'] = ['materialise/project self-check failed'] + d0 + an0
                return res
        else:
            sl0 = None
        r = ops.OpRunner(w, seed=seed, shim_extra=opts.get('shim', {}), td_spelling=opts.get('td_spelling'))
        kw = {}
        if g['lab']['cmd'] == 'put' and opts.get('spellings'):
            kw['spellings'] = opts['spellings']
        if g['lab']['cmd'] == 'empty' and opts.get('tty'):
            kw['tty'] = True
        obs, raw = r.run(g['lab'], g['pre'], slots=sl0, **kw)
        st1, an1, sl1 = w.project()
        st1, an1 = purge_tolerance(w, g['lab'], st1, an1, g['allowed'][0]['post'])
        if opts.get('gate_only'):
            # only WHERE the entry went is judged (which trash directory, or nowhere), not what its Path= line says
            slim = lambda st: dict(st, items=[{'t': i['t'], 'o': i['o'], 'date': i['date']} for i in st['items']])
            st1 = slim(st1)
            g = dict(g, allowed=[dict(al, post=slim(al['post'])) for al in g['allowed']])
            an1 = [a for a in an1 if 'names unknown location' not in a and 'absolute Path written' not in a]
        res['obs'] = obs
        if raw is not None:
            res['run'] = {'argv': raw.get('argv'), 'cwd': raw.get('cwd'), 'exit': raw.get('exit'),
                          'stdout': raw['stdout'][-600:].decode('utf-8', 'backslashreplace'),
                          'stderr': raw['stderr'][-1500:].decode('utf-8', 'backslashreplace'),
                          'spelled': raw.get('spelled'), 'stdin': raw.get('stdin'), 'pattern': raw.get('pattern')}
            if (opts.get('shim') or {}).get('trace'):
                res['mut'] = [[e['op'], e['raw'], e['res'], [w.classify(p) for p in e['raw']]] for e in raw.get('trace', [])
                              if e['op'] in ('mkdir', 'open_w', 'open_excl', 'write', 'rename', 'replace', 'link', 'symlink',
                                             'unlink', 'rmdir', 'chmod', 'utime', 'truncate', 'sendfile', 'setxattr')]
            esc = [e for e in raw.get('trace', []) if e.get('res') == 'ESCAPE']
            if esc:
                an1 = an1 + ['escape: %s %s' % (e['op'], e.get('escape')) for e in esc[:3]]
        best = None
        for al in g['allowed']:
            if al['lab'].get('undef') and obs.get('listing') == al['lab']['listing']:
                best = []          # the specification leaves this case open
                an1 = []
                res['undef'] = True
                break
            st1c = st1
            if al['lab'].get('sundef'):
                # an info without payload was selected: it may be gone or not; nothing else may differ
                key = lambda x: json.dumps(x, sort_keys=True)
                if {key(x) for x in st1['strays']} <= {key(x) for x in al['post']['strays']}:
                    st1c = dict(st1, strays=al['post']['strays'])
            d = diff_states(st1c, al['post'], tex_superset=(g['lab']['cmd'] == 'put'))
            if not opts.get('state_only'):
                d = d + out_matches(g['lab']['cmd'], obs, al['lab'])
            if best is None or len(d) < len(best):
                best = d
            if not d:
                break
        diffs = (best or []) + an1
        if g['lab']['cmd'] == 'put' and raw is not None:
            diffs += put_diag_check(g, raw)
        if diffs:
            res['status'] = 'mismatch'
            res['diffs'] = diffs
            res['observed_state'] = st1
        res['nontrivial'] = (state_view(g['pre']) != state_view(g['allowed'][0]['post'])) or g['lab'].get('exit') == 'fail'
        res['names'] = {k: v.decode('utf-8', 'backslashreplace') for k, v in conc.names.items()}
        return res
    except Exception:
        res['status'] = 'machinery'
        res['diffs'] = [traceback.format_exc()]
        return res
    finally:
        w.destroy()


def put_diag_check(g, raw):
    """C16: a failed argument is named by a diagnostic on stderr; a run that failed says so on stderr."""
    diffs = []
    lab = g['allowed'][0]['lab']
    err = raw['stderr']
    for k, oc in enumerate(lab['ocs']):
        if oc == 'failed':
            ab = raw['argbytes'][k]
            variants = [ab, ab.decode('utf-8', 'backslashreplace').encode(), repr(os.fsdecode(ab))[1:-1].encode(),
                        ab.decode('utf-8', 'surrogateescape').encode('utf-8', 'backslashreplace')]
            if not any(v in err for v in variants):
                diffs.append('failed argument %r is not named on stderr' % ab)
    return diffs


# ---- parallel driver --------------------------------------------------------------

def _init():
    runner.prepare()


def _work(job):
    g, seed, opts = job
    return run_group(g, seed, opts)


_POOL = [None, 0]


def get_pool(procs):
    """a pool of lean workers, forked before the parent loads anything big (forking a command from a worker
    that inherited a large parent heap costs milliseconds of page-table copying per command)"""
    if _POOL[0] is None or _POOL[1] != procs:
        close_pool()
        # fork context: call get_pool() EARLY, while the parent is still small
        ctx = multiprocessing.get_context('fork')
        _POOL[0] = ctx.Pool(procs, initializer=_init)
        _POOL[1] = procs
    return _POOL[0]


def close_pool():
    if _POOL[0] is not None:
        _POOL[0].close()
        _POOL[0].join()
        _POOL[0] = None


def _run_chunk(args):
    fn, chunk = args
    return [fn(j) for j in chunk]


def rmap(fn, jobs, procs, chunksize, timeout=300, retries=2):
    """ordered parallel map that cannot hang: results are awaited with a timeout; when one does not arrive (a lost
    task: seen once, with all workers idle and the parent waiting for ever) the pool is torn down, a fresh one is made
    and the jobs without a result are run again"""
    out = []
    attempt = 0
    while len(out) < len(jobs):
        pool = get_pool(procs)
        rest = jobs[len(out):]
        chunks = [(fn, rest[i:i + chunksize]) for i in range(0, len(rest), chunksize)]
        it = pool.imap(_run_chunk, chunks, chunksize=1)
        try:
            for _ in chunks:
                out.extend(it.next(timeout=timeout))
        except multiprocessing.TimeoutError:
            attempt += 1
            sys.stderr.write('NOTE: no result within %ds after %d of %d jobs; restarting the worker pool (attempt %d)\n' % (
                timeout, len(out), len(jobs), attempt))
            try:
                _POOL[0].terminate()
            except Exception:
                pass
            _POOL[0] = None
            if attempt > retries:
                raise RuntimeError('worker pool lost results %d times' % attempt)
    return out


def run_groups(jobs, procs=None):
    """jobs: list of (group, seed, opts) -> list of results (same order)"""
    procs = procs or min(16, os.cpu_count() or 4)
    if procs == 1 or len(jobs) < 4:
        _init()
        return [_work(j) for j in jobs]
    return rmap(_work, jobs, procs, max(1, min(40, len(jobs) // (procs * 4) or 1)))


# ---- behaviour replay ---------------------------------------------------------------

def run_behaviour(beh, seed, opts=None):
    """beh = {cfg, init, hist: [{lab, post, lines, diag}]}: every step is a real command (or an environment
    action performed by the harness); after every step the projection must equal the behaviour's state and
    trash-list must print the state's bag."""
    opts = opts or {}
    conc = world.Conc(seed, **opts.get('conc', {}))
    w = world.World(conc, beh['cfg'])
    res = {'seed': seed, 'status': 'ok', 'diffs': [], 'cfg': beh['cfg'], 'steps': 0, 'cmds': [], 'nontrivial': 0,
           'observed_steps': []}
    try:
        w.materialise(beh['init'])
        st0, an0, slots = w.project()
        d0 = diff_states(st0, beh['init'])
        if d0 or an0:
            res['status'] = 'machinery'
            res['diffs'] = ['materialise/project self-check failed'] + d0 + an0
            return res
        r = ops.OpRunner(w, seed=seed, shim_extra=opts.get('shim', {}))
        prev = beh['init']
        for k, step in enumerate(beh['hist']):
            lab = step['lab']
            if lab['cmd'] == 'restore' and lab['reply']['k'] == 'idx' and lab['listing']:
                # The specification leaves the order of equal sort keys (and of --sort none) open.  The behaviour
                # fixes one listing; the real command may print another legal one.  Learn the real order first
                # (same command, end of input as reply: must change nothing), then choose the indexes that denote
                # the SAME entries.  Whether the printed order is legal is judged by TLC (TrashTrace) on the
                # recorded step.
                st_r = r.rnd.getstate()
                pobs, praw = r.restore(dict(lab, reply={'k': 'eof'}), prev)
                r.rnd.setstate(st_r)
                want = [lab['listing'][i] for i in lab['reply']['idx']]
                newidx = []
                used = set()
                okmap = True
                for e in want:
                    cands = [i for i, x in enumerate(pobs['listing']) if x == e]
                    if not cands:
                        okmap = False
                        break
                    newidx.append(cands[0])
                if okmap and sorted(map(json.dumps, pobs['listing'])) == sorted(map(json.dumps, lab['listing'])):
                    lab = dict(lab, reply={'k': 'idx', 'idx': newidx}, listing=pobs['listing'])
                    step = dict(step, lab=lab)
            obs, raw = r.run(lab, prev, slots=slots)
            st1, an1, slots = w.project()
            st1, an1 = purge_tolerance(w, lab, st1, an1, step['post'])
            diffs = diff_states(st1, step['post'], tex_superset=(lab['cmd'] == 'put')) + an1
            if lab['cmd'] in ('put', 'list', 'restore', 'empty', 'rm'):
                diffs += out_matches(lab['cmd'], obs, lab)
                res['cmds'].append(lab['cmd'])
            if lab['cmd'] == 'put' and raw is not None:
                diffs += put_diag_check({'allowed': [{'lab': lab}]}, raw)
            if not diffs and opts.get('list_after', True):
                lobs, lraw = r.list({'td': 'none'}, step['post'])
                diffs += ['after step %d, %s' % (k, d) for d in
                          out_matches('list', lobs, {'exit': 'ok', 'lines': step['lines'], 'diag': step['diag']})]
                st2, an2, slots = w.project()
                diffs += ['trash-list changed the state: ' + d for d in diff_states(st2, step['post'], tex_superset=(lab['cmd'] == 'put')) + an2]
            res['steps'] = k + 1
            if lab['cmd'] in ('put', 'restore', 'empty', 'rm') and not diffs:
                olab = dict(lab)
                olab.update({kk: obs[kk] for kk in ('exit', 'listing', 'printed') if kk in obs})
                res.setdefault('observed_steps', []).append({'cfg': beh['cfg'], 'pre': dict(prev), 'lab': olab,
                                                             'post': dict(st1, clock=step['post']['clock'], purged=[])})
            if state_view(prev) != state_view(step['post']):
                res['nontrivial'] += 1
            if diffs:
                res['status'] = 'mismatch'
                res['diffs'] = ['step %d (%s): %s' % (k, lab['cmd'], d) for d in diffs]
                res['failing_step'] = k
                res['lab'] = lab
                if raw is not None:
                    res['run'] = {'argv': raw.get('argv'), 'cwd': raw.get('cwd'), 'exit': raw.get('exit'),
                                  'stdout': raw['stdout'][-600:].decode('utf-8', 'backslashreplace'),
                                  'stderr': raw['stderr'][-1500:].decode('utf-8', 'backslashreplace'),
                                  'spelled': raw.get('spelled'), 'stdin': raw.get('stdin'), 'pattern': raw.get('pattern')}
                res['observed_state'] = st1
                break
            prev = step['post']
            w.rebaseline()
        res['names'] = {k: v.decode('utf-8', 'backslashreplace') for k, v in conc.names.items()}
        return res
    except Exception:
        res['status'] = 'machinery'
        res['diffs'] = [traceback.format_exc()]
        return res
    finally:
        w.destroy()


def _work_beh(job):
    beh, seed, opts = job
    return run_behaviour(beh, seed, opts)


def run_behaviours(jobs, procs=None):
    procs = procs or min(16, os.cpu_count() or 4)
    if procs == 1 or len(jobs) < 4:
        _init()
        return [_work_beh(j) for j in jobs]
    return rmap(_work_beh, jobs, procs, max(1, min(10, len(jobs) // (procs * 4) or 1)), timeout=600)


def pmap(fn, jobs, procs=None, timeout=120):
    """ordered parallel map with a per-result timeout (a stuck job becomes a machinery error, not a hang)"""
    procs = procs or min(16, os.cpu_count() or 4)
    if len(jobs) < 3:
        return [fn(j) for j in jobs]
    return rmap(fn, jobs, procs, 1, timeout=timeout)

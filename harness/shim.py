"""Child-side instrumentation at the boundary between Python and the OS.

Nothing in /repo is touched: the shim wraps the os-level entry points that
Python code reaches the file system through, inside the forked child that runs
one real trash-* script.  It provides

  * a virtual mount table (ismount, psutil partitions, EXDEV / EBUSY),
  * a virtual uid and a virtual clock,
  * directory-order virtualisation (listdir / scandir permuted by seed),
  * an escape guard (mutations outside the sandbox fail with EROFS),
  * an operation trace, crash points (os._exit before operation k),
    fault injection (errno instead of operation k, one-shot or sticky),
    an operation budget, and lock-step scheduling through two pipes.

Guard: the shim is only installed when the controller asks for it (the child
is started by harness.runner with TRASHCLI_VERIF_SHIM=1 in its environment).
"""
from __future__ import annotations

import builtins
import errno as _errno
import io
import json
import os
import posixpath
import random
import stat as _stat
import sys

# ---- originals (captured once, before any patching) ------------------------
_o = {}
_NAMES = ['stat', 'lstat', 'access', 'readlink', 'listdir', 'scandir', 'mkdir',
          'open', 'write', 'close', 'rename', 'replace', 'link', 'symlink',
          'unlink', 'remove', 'rmdir', 'chmod', 'utime', 'truncate',
          'sendfile', 'copy_file_range', 'getuid', 'geteuid', 'setxattr',
          'listxattr', 'getxattr', 'chown', 'lchown', 'mkfifo', 'mknod']
for _n in _NAMES:
    if hasattr(os, _n):
        _o[_n] = getattr(os, _n)
_o['builtins_open'] = builtins.open
_o['io_open'] = io.open
_o['ismount'] = posixpath.ismount

NOW = [None]  # virtual clock: a tuple (Y, M, D, h, m, s) or None
TICK = [0, 0]  # [seconds per counted operation, operations counted so far]: with a step, the virtual clock moves with the run


def install_clock():
    """Replace datetime.datetime by a subclass whose now() is virtual.

    Must run before trashcli is imported (modules bind the class at import)."""
    import datetime as _dt
    if getattr(_dt.datetime, '_verif_fake', False):
        return
    real = _dt.datetime

    class FakeDateTime(real):
        _verif_fake = True

        @classmethod
        def now(cls, tz=None):
            if NOW[0] is None:
                return real.now(tz)
            if TICK[0]:
                import datetime as _d
                return cls(*NOW[0]) + _d.timedelta(seconds=TICK[0] * TICK[1])
            return cls(*NOW[0])

        @classmethod
        def today(cls):
            return cls.now()

    FakeDateTime.__name__ = 'datetime'
    FakeDateTime.__qualname__ = 'datetime'
    _dt.datetime = FakeDateTime


MUTATING = {'mkdir', 'open_w', 'open_excl', 'write', 'rename', 'replace', 'link',
            'symlink', 'unlink', 'rmdir', 'chmod', 'utime', 'truncate',
            'sendfile', 'setxattr', 'chown', 'mkfifo', 'mknod', 'close'}


class Shim(object):
    def __init__(self, cfg):
        self.root = cfg['root']                      # sandbox root (real path)
        self.mounts = set(cfg.get('mounts', [self.root]))
        self.uid = cfg.get('uid')
        self.pwall = cfg.get('pwall') or []
        self.short_writes = bool(cfg.get('short_writes'))
        TICK[0] = int(cfg.get('clock_step') or 0)     # seconds the virtual clock advances per counted operation
        self.seed = cfg.get('seed', 0)
        self.permute = cfg.get('permute', False)
        self.trace_on = cfg.get('trace', False)
        self.trace_reads = cfg.get('trace_reads', True)
        self.crash_at = cfg.get('crash_at')          # 1-based op number: _exit before it
        self.crash_after = cfg.get('crash_after')    # _exit right after op k
        self.intr_at = cfg.get('intr_at')            # KeyboardInterrupt (Ctrl-C) delivered just before op k ...
        self.intr_after = cfg.get('intr_after')      # ... or when op k returns (Python raises it after the system call)
        self.intr_sig = cfg.get('intr_sig', 'SIGINT')  # the signal really sent: SIGINT | SIGTERM | SIGHUP
        self.faults = cfg.get('faults', [])          # [{at:k | match:{op,under}, errno:'EACCES', sticky:bool}]
        self.budget = cfg.get('budget', 20000)
        self.count_ops = set(cfg.get('count_ops', [])) or None  # which ops count as crash/fault points
        self.scope = cfg.get('scope')                # only paths under these prefixes are ops (rel to root)
        self.lock = cfg.get('lockstep')              # {'ann': fd, 'tok': fd, 'shared': [prefixes]}
        self.out = None
        self.events = []
        self.seq = 0
        self.fds = {}                                # fd -> (relpath, kind)
        self.sticky = []
        self.out_fd = cfg.get('trace_fd')
        self.pid_name = cfg.get('pname', 'p')
        self.extra_exdev = cfg.get('exdev_pairs', [])
        self.nofault_ops = set(cfg.get('nofault_ops', []))      # calls that report errors by their result, never by raising

    # ---- path helpers ------------------------------------------------------
    def _abs(self, path, dir_fd=None):
        p = os.fsdecode(path) if isinstance(path, (bytes, bytearray)) else os.fspath(path)
        if isinstance(p, bytes):
            p = os.fsdecode(p)
        if dir_fd is not None and not p.startswith('/'):
            try:
                base = _o['readlink']('/proc/self/fd/%d' % dir_fd)
            except OSError:
                base = '/?fd'
            p = posixpath.join(base, p)
        if not p.startswith('/'):
            p = posixpath.join(os.getcwd(), p)
        return p

    def _resolve_parent(self, ap):
        """realpath of the parent + last component unresolved."""
        ap = ap.rstrip('/') or '/'
        parent, base = posixpath.split(ap)
        try:
            rp = _real_realpath(parent)
        except OSError:
            rp = posixpath.normpath(parent)
        if base in ('.', '..'):
            try:
                return _real_realpath(ap)
            except OSError:
                return posixpath.normpath(ap)
        return posixpath.join(rp, base) if base else rp

    def _inside(self, rp):
        return rp == self.root or rp.startswith(self.root + '/')

    def _rel(self, rp):
        if rp == self.root:
            return '.'
        if rp.startswith(self.root + '/'):
            return rp[len(self.root) + 1:]
        return None

    def volume_of(self, rp):
        p = rp
        while True:
            if p in self.mounts:
                return p
            q = posixpath.dirname(p)
            if q == p:
                return p
            p = q

    # ---- virtual mounts -------------------------------------------------------
    def ismount(self, path):
        try:
            ap = self._abs(path)
        except TypeError:
            return _o['ismount'](path)
        try:
            st = _o['lstat'](ap)
        except (OSError, ValueError):
            return False
        if _stat.S_ISLNK(st.st_mode):
            return False
        try:
            rp = _real_realpath(ap)
        except OSError:
            return False
        if self._inside(rp):
            return rp in self.mounts
        return _o['ismount'](path)

    def disk_partitions(self, all=False):
        from collections import namedtuple
        P = namedtuple('sdiskpart', ['device', 'mountpoint', 'fstype', 'opts'])
        # the kind of file system is nobody's business (the checks of $topdir/.Trash are the same on a USB stick)
        import random as _r
        kinds = ['ext4', 'ext4', 'vfat', 'exfat', 'ntfs', 'fuseblk', 'xfs', 'btrfs', 'nfs4', 'msdos']
        return [P('/dev/verif%d' % i, m, _r.Random('fstype|%s|%d' % (self.seed, i)).choice(kinds), 'rw')
                for i, m in enumerate(sorted(self.mounts))]

    # ---- event machinery ---------------------------------------------------------
    def _emit(self, ev):
        if self.out_fd is not None:
            try:
                _o['write'](self.out_fd, (json.dumps(ev) + '\n').encode('utf-8', 'surrogateescape'))
            except OSError:
                pass
        else:
            self.events.append(ev)

    def _in_scope(self, rels):
        if self.scope is None:
            return True
        for r in rels:
            if r is None:
                continue
            for s in self.scope:
                if r == s or r.startswith(s + '/') or s == '.':
                    return True
        return False

    def _is_shared(self, rels):
        sh = self.lock.get('shared') if self.lock else None
        if not sh:
            return True
        for r in rels:
            if r is None:
                continue
            for s in sh:
                if r == s or r.startswith(s + '/') or s.startswith(r + '/'):
                    return True
        return False

    def _gate(self, op, paths, extra=None):
        """Called before an operation.  Returns the event dict (to be completed)
        or raises the injected error."""
        rps = [self._resolve_parent(p) for p in paths]
        rels = [self._rel(r) for r in rps]
        inside = any(r is not None for r in rels)
        if not inside and not (op in MUTATING and paths):
            return None
        counted = inside and self._in_scope(rels) and (self.count_ops is None or op in self.count_ops)
        ev = {'p': self.pid_name, 'op': op, 'raw': rels, 'res': None}
        if extra:
            ev.update(extra)
        if counted:
            self.seq += 1
            TICK[1] = self.seq
            ev['seq'] = self.seq
            if self.seq > self.budget:
                ev['res'] = 'BUDGET'
                self._emit(ev)
                self._die(99)
            if self.lock and self._is_shared(rels):
                self._lockstep(ev)
            if self.crash_at is not None and self.seq == self.crash_at:
                ev['res'] = 'CRASH'
                self._emit(ev)
                self._die(137)
            if self.intr_at is not None and self.seq == self.intr_at:
                self.intr_at = None
                ev['res'] = 'INTR'
                self._emit(ev)
                self._signal(self.intr_sig)
            f = self._fault_for(op, rels) if op not in self.nofault_ops else None
            if f is not None:
                ev['res'] = f
                ev['injected'] = True
                self._emit(ev)
                self._after(ev)
                raise OSError(getattr(_errno, f), os.strerror(getattr(_errno, f)),
                              paths[0] if paths else None)
        if op in MUTATING and op != 'close' and paths:
            esc = [r for r, rel in zip(rps, rels) if rel is None]
            if esc and op not in ('write', 'sendfile'):
                ev['res'] = 'ESCAPE'
                ev['escape'] = esc
                self._emit(ev)
                raise OSError(_errno.EROFS, 'verif escape guard', esc[0])
        return ev

    def _after(self, ev):
        if ev is None:
            return
        if self.lock and ev.get('ls'):
            try:
                _o['write'](self.lock['ann'], (json.dumps({'done': ev.get('seq'), 'p': self.pid_name, 'op': ev['op'], 'raw': ev['raw'], 'res': ev['res']}) + '\n').encode())
            except OSError:
                pass
        if self.crash_after is not None and ev.get('seq') == self.crash_after:
            self._die(137)
        if self.intr_after is not None and ev.get('seq') == self.intr_after:
            self.intr_after = None
            self._signal(self.intr_sig)

    def _signal(self, name):
        """deliver a REAL signal to this process: whatever handler the program installed runs (none: SIGINT raises
        KeyboardInterrupt here, SIGTERM / SIGHUP end the process); if a handler returns, the run goes on"""
        import signal as _signal
        import time as _time
        os.kill(os.getpid(), getattr(_signal, name))
        for _ in range(50):
            _time.sleep(0)          # let the interpreter run the handler now
        if name == 'SIGINT' and _signal.getsignal(_signal.SIGINT) is _signal.default_int_handler:
            raise KeyboardInterrupt()

    def _lockstep(self, ev):
        ev['ls'] = True
        msg = json.dumps({'want': ev['seq'], 'p': self.pid_name, 'op': ev['op'], 'raw': ev['raw']}) + '\n'
        _o['write'](self.lock['ann'], msg.encode('utf-8', 'surrogateescape'))
        tok = os.read(self.lock['tok'], 1)
        if tok == b'K' or tok == b'':
            ev['res'] = 'CRASH'
            self._emit(ev)
            self._die(137)
        if tok.isalpha() and tok not in (b'g',):
            # injected fault chosen by the controller: next byte(s) carry errno name
            name = b''
            while True:
                c = os.read(self.lock['tok'], 1)
                if c in (b'\n', b''):
                    break
                name += c
            f = name.decode()
            ev['res'] = f
            ev['injected'] = True
            self._emit(ev)
            self._after(ev)
            raise OSError(getattr(_errno, f), os.strerror(getattr(_errno, f)))

    def _fault_for(self, op, rels):
        for f in self.faults:
            if f.get('used') and not f.get('sticky'):
                continue
            hit = False
            if 'at' in f:
                if f.get('used'):      # sticky: same op kind and same directory afterwards
                    hit = (op == f['op_seen'] and _dirs(rels) == f['dir_seen'])
                else:
                    hit = (self.seq == f['at'])
            elif 'match' in f:
                m = f['match']
                if m.get('exact'):
                    hit = (op in m.get('ops', [op])) and any(r is not None and r in m['exact'] for r in rels)
                    if hit and op in ('rename', 'replace') and len(rels) == 2 and None not in rels:
                        # kernel order: a rename across mounts fails with EXDEV before any permission is looked at
                        v = [self.volume_of(posixpath.dirname(posixpath.join(self.root, r))) for r in rels]
                        if v[0] != v[1]:
                            hit = False
                else:
                    hit = (op in m.get('ops', [op])) and any(
                        r is not None and (r == u or r.startswith(u + '/'))
                        for r in rels for u in m.get('under', ['']) if True) if m.get('under') else (op in m.get('ops', [op]))
                if hit and m.get('nth'):
                    f['n'] = f.get('n', 0) + 1
                    hit = f['n'] == m['nth'] or (f.get('sticky') and f['n'] >= m['nth'])
            if hit:
                if not f.get('used'):
                    f['used'] = True
                    f['op_seen'] = op
                    f['dir_seen'] = _dirs(rels)
                return f['errno']
        return None

    def _die(self, code):
        os._exit(code)

    def _run(self, op, fn, paths, a, kw, extra=None, post=None):
        ev = self._gate(op, paths, extra)
        if ev is None:
            return fn(*a, **kw)
        try:
            r = fn(*a, **kw)
            ev['res'] = 'ok'
            if post:
                post(r, ev)
            return r
        except OSError as e:
            ev['res'] = _errno.errorcode.get(e.errno, str(e.errno))
            raise
        finally:
            if self.trace_on and (self.trace_reads or op in MUTATING):
                self._emit(ev)
            self._after(ev)

    # ---- wrappers ---------------------------------------------------------------
    def install(self):
        s = self
        posixpath.ismount = s.ismount
        try:
            import psutil
            psutil.disk_partitions = s.disk_partitions
        except ImportError:
            pass
        if s.uid is not None:
            os.getuid = lambda: s.uid
            os.geteuid = lambda: s.uid
        # the password database (--all-users): never the real one, whose home directories lie outside the sandbox
        import pwd
        pwall = [pwd.struct_passwd((n, 'x', u, u, '', d, '/bin/sh')) for n, u, d in s.pwall]
        pwd.getpwall = lambda: list(pwall)

        def p1(name, op=None):
            fn = _o[name]
            opn = op or name

            def w(path, *a, **kw):
                if isinstance(path, int):
                    return fn(path, *a, **kw)
                ap = s._abs(path, kw.get('dir_fd'))
                return s._run(opn, fn, [ap], (path,) + a, kw)
            w.__name__ = name
            return w

        for n in ('stat', 'lstat', 'access', 'readlink', 'chmod', 'utime', 'truncate',
                  'listxattr', 'getxattr', 'setxattr', 'chown', 'lchown', 'mkfifo', 'mknod'):
            if n in _o:
                setattr(os, n, p1(n))
        os.unlink = p1('unlink', 'unlink')
        os.remove = p1('remove', 'unlink')

        def w_mkdir(path, mode=0o777, *a, **kw):
            ap = s._abs(path, kw.get('dir_fd'))
            return s._run('mkdir', _o['mkdir'], [ap], (path, mode) + a, kw, {'mode': mode})
        os.mkdir = w_mkdir

        def w_rmdir(path, *a, **kw):
            ap = s._abs(path, kw.get('dir_fd'))
            rp = s._resolve_parent(ap)

            def real(*aa, **kk):
                if rp in s.mounts:
                    raise OSError(_errno.EBUSY, 'Device or resource busy', rp)
                return _o['rmdir'](*aa, **kk)
            return s._run('rmdir', real, [ap], (path,) + a, kw)
        os.rmdir = w_rmdir

        def two(name):
            fn = _o[name]

            def w(src, dst, *a, **kw):
                a1 = s._abs(src, kw.get('src_dir_fd'))
                a2 = s._abs(dst, kw.get('dst_dir_fd'))

                def real(*aa, **kk):
                    r1 = s._resolve_parent(a1)
                    r2 = s._resolve_parent(a2)
                    if s._inside(r1) or s._inside(r2):
                        # same order as the kernel: the mounts of the two parent
                        # directories are compared first (EXDEV), a mount point as
                        # source or target is noticed later (EBUSY)
                        v1 = s.volume_of(posixpath.dirname(r1))
                        v2 = s.volume_of(posixpath.dirname(r2))
                        if v1 != v2:
                            raise OSError(_errno.EXDEV, 'Invalid cross-device link', a1, None, a2)
                        if r1 in s.mounts or r2 in s.mounts:
                            raise OSError(_errno.EBUSY, 'Device or resource busy', a1, None, a2)
                    return fn(*aa, **kk)
                return s._run(name, real, [a1, a2], (src, dst) + a, kw)
            w.__name__ = name
            return w
        os.rename = two('rename')
        os.replace = two('replace')
        os.link = two('link')

        def w_symlink(src, dst, *a, **kw):
            ap = s._abs(dst, kw.get('dir_fd'))
            return s._run('symlink', _o['symlink'], [ap], (src, dst) + a, kw,
                          {'target': os.fsdecode(src) if isinstance(src, bytes) else str(src)})
        os.symlink = w_symlink

        def w_listdir(path='.'):
            if isinstance(path, int):
                return _o['listdir'](path)
            ap = s._abs(path)
            r = s._run('listdir', _o['listdir'], [ap], (path,), {})
            if s.permute and s._inside(s._resolve_parent(ap)):
                r = list(r)
                random.Random('%s|%s' % (s.seed, ap)).shuffle(r)
            return r
        os.listdir = w_listdir

        class _ScanCtx(object):
            def __init__(self, it, items):
                self._it = it
                self._items = items
                self._i = 0

            def __iter__(self):
                return self

            def __next__(self):
                if self._i >= len(self._items):
                    raise StopIteration
                self._i += 1
                return self._items[self._i - 1]

            def close(self):
                self._it.close()

            def __enter__(self):
                return self

            def __exit__(self, *a):
                self.close()

        def w_scandir(path='.'):
            if isinstance(path, int):
                try:
                    ap = _o['readlink']('/proc/self/fd/%d' % path)
                except OSError:
                    ap = '/?fd'
            else:
                ap = s._abs(path)
            it = s._run('listdir', _o['scandir'], [ap], (path,), {})
            items = list(it)
            if s.permute:
                random.Random('%s|%s' % (s.seed, ap)).shuffle(items)
            return _ScanCtx(it, items)
        os.scandir = w_scandir

        def w_open(path, flags, mode=0o777, *a, **kw):
            ap = s._abs(path, kw.get('dir_fd'))
            acc = flags & os.O_ACCMODE
            writing = acc in (os.O_WRONLY, os.O_RDWR) or flags & (os.O_CREAT | os.O_TRUNC)
            if flags & os.O_EXCL and flags & os.O_CREAT:
                op = 'open_excl'
            elif writing:
                op = 'open_w'
            else:
                op = 'open_r'

            def post(fd, ev):
                rel = ev['raw'][0]
                if op != 'open_r':
                    s.fds[fd] = rel
            return s._run(op, _o['open'], [ap], (path, flags, mode) + a, kw, None, post)
        os.open = w_open

        def w_write(fd, data):
            rel = s.fds.get(fd)
            if rel is None:
                return _o['write'](fd, data)
            if s.short_writes and len(data) > 1:
                # a write may store only part of the data and say so (quota, file-size limit, a nearly full disk): legal
                data = bytes(data)[:(len(data) + 1) // 2]
            return s._run('write', _o['write'], [posixpath.join(s.root, rel)], (fd, data), {},
                          {'n': len(data)})
        os.write = w_write

        def w_close(fd):
            rel = s.fds.pop(fd, None)
            if rel is None:
                return _o['close'](fd)
            return s._run('close', _o['close'], [posixpath.join(s.root, rel)], (fd,), {})
        os.close = w_close

        def w_sendfile(out_fd, in_fd, offset, count, *a, **kw):
            try:
                ap = _o['readlink']('/proc/self/fd/%d' % out_fd)
            except OSError:
                ap = '/?fd'
            return s._run('sendfile', _o['sendfile'], [ap], (out_fd, in_fd, offset, count) + a, kw)
        if 'sendfile' in _o:
            os.sendfile = w_sendfile

        def mk_open(orig):
            def w(file, mode='r', *a, **kw):
                if isinstance(file, int):
                    return orig(file, mode, *a, **kw)
                ap = s._abs(file)
                m = mode if isinstance(mode, str) else 'r'
                if 'x' in m:
                    op = 'open_excl'
                elif any(c in m for c in 'wa+'):
                    op = 'open_w'
                else:
                    op = 'open_r'
                return s._run(op, orig, [ap], (file, mode) + a, kw)
            return w
        builtins.open = mk_open(_o['builtins_open'])
        io.open = mk_open(_o['io_open'])
        # shutil asks "fn in os.supports_follow_symlinks / supports_dir_fd / supports_fd": a wrapper must be a member
        # wherever the function it wraps is, or copystat / rmtree silently take other code paths
        for name, orig in _o.items():
            cur = getattr(os, name, None)
            if cur is None or cur is orig:
                continue
            for setname in ('supports_follow_symlinks', 'supports_dir_fd', 'supports_fd', 'supports_effective_ids'):
                st = getattr(os, setname, None)
                if st is not None and orig in st:
                    st.add(cur)


def _dirs(rels):
    return [posixpath.dirname(r) if r is not None else None for r in rels]


def _real_realpath(path):
    """realpath using the original (unwrapped) os functions."""
    seen = 0
    if not path.startswith('/'):
        path = posixpath.join(os.getcwd(), path)        # no lexical normalisation: 'link/..' is resolved through the link
    parts = [c for c in path.split('/') if c]
    cur = '/'
    i = 0
    while i < len(parts):
        c = parts[i]
        i += 1
        if c == '.':
            continue
        if c == '..':
            cur = posixpath.dirname(cur)
            continue
        nxt = posixpath.join(cur, c)
        try:
            st = _o['lstat'](nxt)
        except OSError:
            # non-existent: append the rest lexically
            rest = parts[i:]
            cur = nxt
            for r in rest:
                if r == '..':
                    cur = posixpath.dirname(cur)
                elif r != '.':
                    cur = posixpath.join(cur, r)
            return cur
        if _stat.S_ISLNK(st.st_mode):
            seen += 1
            if seen > 40:
                raise OSError(_errno.ELOOP, 'loop', path)
            tgt = _o['readlink'](nxt)
            tparts = [x for x in tgt.split('/') if x]
            if tgt.startswith('/'):
                cur = '/'
            parts = tparts + parts[i:]
            i = 0
            continue
        cur = nxt
    return cur

"""C08, one invocation, a state that changes while it runs: `trash-put a b` with both arguments on one volume whose
$topdir/.Trash is a proper sticky directory when `a` is handled and stops being one before `b` is handled (another
process removes the sticky bit, or replaces the directory by a symlink).  Every argument must be judged against the
state of .Trash at its own time: nothing decided for `a` may be reused for `b`.

The real command runs in lock-step (every operation is a scheduling point); it is paused at the first operation that
touches the second argument, the sandbox is projected, $topdir/.Trash is changed, and the run goes on.  The two halves
are two observed steps  [cfg1, pre, put a, mid]  and  [cfg2, mid, put b, end]  which TLC judges against PutApply of
spec/Trash.tla (TrashTrace), like any other recorded step."""
from __future__ import annotations

import copy
import os
import traceback

from harness import ops, oplevel, runner, world

CHANGES = ['nonsticky', 'linksticky', 'linknonsticky']


def change_top(w, v, new):
    p = os.path.join(w.rpath(v), '.Trash')
    if new == 'nonsticky':
        os.chmod(p, 0o777)
    else:
        real = os.path.join(w.rpath(v), '.realtrash')
        os.rename(p, real)
        os.chmod(real, 0o1777 if new == 'linksticky' else 0o777)
        os.symlink('.realtrash', p)


def run_midrun(job):
    g, seed, new = job
    res = {'status': 'ok', 'diffs': [], 'steps': [], 'new': new, 'seed': seed}
    conc = world.Conc(seed, deep=False, td_link=False)
    cfg1 = g['cfg']
    w = world.World(conc, cfg1)
    try:
        runner.prepare()
        w.materialise(g['pre'])
        st0, an0, _ = w.project()
        if an0:
            res['status'] = 'machinery'
            res['diffs'] = ['materialise/project self-check failed'] + an0
            return res
        lab = g['lab']
        a1, a2 = lab['args']
        p1, p2 = w.lpath(a1['r'], a1['d'], a1['n']), w.lpath(a2['r'], a2['d'], a2['n'])
        rel2 = os.fsdecode(p2)[len(w.root) + 1:]
        a_r, a_w = os.pipe()
        t_r, t_w = os.pipe()
        shim_cfg = {'root': w.root, 'mounts': w.mounts(), 'uid': conc.uid, 'seed': 1, 'trace': True, 'pname': 'p1',
                    'lockstep': {'ann': a_w, 'tok': t_r, 'shared': []}}
        dt = conc.tick_to_dt(g['pre']['clock'])
        h = runner.spawn('trash-put', [p1, p2], os.path.join(w.root, 'cwd'), w.env(), shim_cfg=shim_cfg,
                         now=(dt.year, dt.month, dt.day, dt.hour, dt.minute, dt.second))
        os.close(a_w)
        os.close(t_r)
        pr = oplevel.Proc()
        pr.ann_r, pr.tok_w, pr.buf, pr.want, pr.alive, pr.events, pr.h = a_r, t_w, b'', None, True, [], h
        oplevel.advance_to_want(pr)
        mid = None
        n = 0
        while pr.alive and pr.want is not None and n < 5000:
            raw = pr.want.get('raw') or []
            if mid is None and any(r is not None and (r == rel2 or r.startswith(rel2 + '/')) for r in raw):
                mid, an1, _ = w.project()
                if an1:
                    res['diffs'] += ['before the change: ' + a for a in an1]
                change_top(w, a2['r'] if a2['r'] in cfg1['mounted'] else w.vol_of_region(a2['r']), new)
                cfg2 = copy.deepcopy(cfg1)
                cfg2['top'][w.vol_of_region(a2['r'])] = new
                w.cfg = cfg2
                w.project()
                w.rebaseline()
            os.write(pr.tok_w, b'g')
            pr.want = None
            oplevel.advance_to_want(pr)
            n += 1
        out = runner.finish(h, timeout=10)
        for fd in (a_r, t_w):
            try:
                os.close(fd)
            except OSError:
                pass
        if mid is None:
            res['status'] = 'machinery'
            res['diffs'] = ['the run never touched the second argument']
            return res
        end, an2, _ = w.project()
        res['diffs'] += ['after the change: ' + a for a in an2]
        ex = runner.exit_class(out)
        lab1 = dict(lab, args=[a1], exit=ex)
        lab2 = dict(lab, args=[a2], exit=ex)
        for k in ('ocs', 'diag'):
            lab1.pop(k, None)
            lab2.pop(k, None)
        clock = g['pre']['clock']
        res['steps'] = [{'cfg': cfg1, 'pre': dict(g['pre']), 'lab': lab1, 'post': dict(mid, clock=clock, purged=[])},
                        {'cfg': w.cfg, 'pre': dict(mid, clock=clock, purged=[]), 'lab': lab2, 'post': dict(end, clock=clock, purged=[])}]
        res['run'] = {'argv': [os.fsdecode(p1), os.fsdecode(p2)], 'exit': out['exit'],
                      'stderr': out['stderr'][-800:].decode('utf-8', 'backslashreplace')}
        if res['diffs']:
            res['status'] = 'mismatch'
        return res
    except Exception:
        res['status'] = 'machinery'
        res['diffs'] = [traceback.format_exc()]
        return res
    finally:
        w.destroy()

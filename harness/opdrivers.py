"""Drivers for the operation-level checks: schedules (C04), crash points (C05),
fault points (C17) of the real trash-put; every observed state goes to TLC."""
from __future__ import annotations

import hashlib
import itertools
import json
import os
import random

from harness import oplevel, runner

ERRNOS = ['EACCES', 'EPERM', 'EROFS', 'ENOSPC', 'EIO', 'ENAMETOOLONG', 'ENOENT', 'EBUSY', 'EXDEV', 'EEXIST', 'EMFILE']

LONG = b'long-' + b'x' * 245      # <name>.trashinfo exceeds NAME_MAX: trash-put shortens the name (and always adds a suffix)

PUT_SCENARIOS = {
    # name: (kinds per process, box kwargs)
    'race-create':   (['file', 'dir'], {}),
    'existing':      (['file', 'file'], {'tdir_exists': True}),
    'collide':       (['dir', 'file'], {'tdir_exists': True, 'pre_info': [('t1', b'n_1')],
                                        'pre_pay': [('t1', b'n', 'dir'), ('t1', b'n_2', 'file')]}),
    'links':         (['link', 'dir'], {'pre_pay': [('t1', b'n', 'emptydir')]}),
    'dangling-orphan': (['file', 'dir'], {'tdir_exists': True, 'pre_pay': [('t1', b'n', 'dlink'), ('t1', b'n_1', 'dlink')]}),
    'three':         (['file', 'dir', 'link'], {}),
    'volume':        (['dir', 'file'], {'src_vol': 'V1'}),
    'bystanders-copy': (['file', 'file'], {'src_vol': 'V1', 'fallback': True, 'tdir_exists': True,
                                           'pre_info': [('t1', b) for b in (b'n.part', b'n~', b'n.tmp', b'n_1.part')],
                                           'pre_pay': [('t1', b'n.part', 'file'), ('t1', b'n~', 'file'), ('t1', b'n.tmp', 'dir'),
                                                       ('t1', b'n_1.part', 'file')]}),
    'long-names':    (['file', 'dir'], {'base': LONG, 'tdir_exists': True, 'pre_pay': [('t1', 'n1', 'file')], 'pre_info': [('t1', 'n2')]}),
    'infoname':      (['file', 'dir'], {'base': b'n.trashinfo', 'tdir_exists': True}),
    'short-writes':  (['file', 'dir'], {'short_writes': True}),
}

SINGLE_SCENARIOS = {
    'first-use-file':  ('file', {}),
    'first-use-dir':   ('dir', {}),
    'first-use-link':  ('link', {}),
    'first-use-empty': ('empty', {}),
    'existing-file':   ('file', {'tdir_exists': True}),
    'collision-dir':   ('dir', {'tdir_exists': True, 'pre_info': [('t1', b'n')], 'pre_pay': [('t1', b'n_1', 'dir')]}),
    'collision-dlink': ('file', {'tdir_exists': True, 'pre_pay': [('t1', b'n', 'dlink')]}),
    'collision-file':  ('file', {'tdir_exists': True, 'pre_pay': [('t1', b'n', 'file'), ('t1', b'n_1', 'emptydir')],
                                 'pre_info': [('t1', b'n_2')]}),
    'volume-file':     ('file', {'src_vol': 'V1'}),
    'volume-dir':      ('dir', {'src_vol': 'V1', 'tdir_exists': True}),
    'fallback-file':   ('file', {'src_vol': 'V1', 'fallback': True}),
    'fallback-dir':    ('dir', {'src_vol': 'V1', 'fallback': True}),
    'fallback-link':   ('link', {'src_vol': 'V1', 'fallback': True}),
    # complete, unrelated entries whose names look like scratch names of 'n' (n.part, n~, .n.tmp, n.tmp, n.bak): they
    # are trashed entries like any other and must come through untouched, also when the move is a copy across volumes
    'bystanders-file':     ('file', {'tdir_exists': True, 'pre_info': [('t1', b) for b in (b'n.part', b'n~', b'.n.tmp', b'n.tmp', b'n.bak')],
                                     'pre_pay': [('t1', b'n.part', 'file'), ('t1', b'n~', 'file'), ('t1', b'.n.tmp', 'dir'),
                                                 ('t1', b'n.tmp', 'dir'), ('t1', b'n.bak', 'file')]}),
    'fallback-bystanders': ('file', {'src_vol': 'V1', 'fallback': True, 'tdir_exists': True,
                                     'pre_info': [('t1', b) for b in (b'n.part', b'n~', b'.n.tmp', b'n.tmp', b'n.bak')],
                                     'pre_pay': [('t1', b'n.part', 'file'), ('t1', b'n~', 'file'), ('t1', b'.n.tmp', 'dir'),
                                                 ('t1', b'n.tmp', 'dir'), ('t1', b'n.bak', 'file')]}),
    'fallback-bystanders-dir': ('dir', {'src_vol': 'V1', 'fallback': True, 'tdir_exists': True,
                                        'pre_info': [('t1', b) for b in (b'n.part', b'n.tmp')],
                                        'pre_pay': [('t1', b'n.part', 'dir'), ('t1', b'n.tmp', 'file')]}),
    # the entry's own name contains the suffix of the info files: 'n.trashinfo.d' is trashed as files/n.trashinfo.d with
    # info/n.trashinfo.d.trashinfo, like any other name
    # every write stores only half of what it is given and says so (quota, file-size limit, nearly full disk)
    'short-writes-file': ('file', {'short_writes': True}),
    'short-writes-dir':  ('dir', {'short_writes': True, 'tdir_exists': True, 'pre_info': [('t1', b'n')]}),
    'infoname-file':   ('file', {'base': b'n.trashinfo.d'}),
    'infoname-dir':    ('dir', {'base': b'n.trashinfo', 'tdir_exists': True}),
    'long-first':      ('file', {'base': LONG}),
    'long-orphan':     ('dir', {'base': LONG, 'tdir_exists': True, 'pre_pay': [('t1', 'n1', 'emptydir')]}),
}


# several arguments in ONE invocation (C05: "each entry it was asked to trash"): same names in different directories
MULTI_SCENARIOS = {
    'three-args':          (('file', 'dir', 'link'), {}),
    'three-args-existing': (('dir', 'file', 'empty'), {'tdir_exists': True, 'pre_pay': [('t1', 'n1', 'file')]}),
    'two-args-volume':     (('dir', 'file'), {'src_vol': 'V1'}),
}


def scenario(scen):
    kind, kw = SINGLE_SCENARIOS[scen] if scen in SINGLE_SCENARIOS else MULTI_SCENARIOS[scen]
    kinds = list(kind) if isinstance(kind, tuple) else [kind]
    return kinds, kw


def put_args(box):
    argv = box.put_argv('p1')
    for p in sorted(box.sources)[1:]:
        argv = argv + [box.sources[p]]
    return argv


def make_box(kinds, kw, seed=0):
    box = oplevel.OpBox(seed=seed, **kw)
    for i, k in enumerate(kinds):
        box.add_source('p%d' % (i + 1), k)
    box.baseline()
    return box


def state_key(st):
    return hashlib.sha1(json.dumps(st, sort_keys=True).encode()).hexdigest()


# ---- C04: schedules -----------------------------------------------------------------------------

def run_one_schedule(args):
    scen, preempts, seed = args
    runner.prepare()
    kinds, kw = PUT_SCENARIOS[scen]
    box = make_box(kinds, kw, seed)
    try:
        pn = ['p%d' % (i + 1) for i in range(len(kinds))]
        steps, results, creators = oplevel.run_schedule(box, pn, oplevel.policy_from_preemptions(
            {int(k): v for k, v in preempts.items()}))
        obs = []
        for s in steps:
            obs.append({'state': s['state'], 'done': {}, 'res': {}, 'k': s['k'], 'p': s['p'], 'op': s['op'], 'raw': s['raw'],
                        'opres': s['res']})
        fin = oplevel.final_obs(box, steps, results, creators)
        fin['final'] = True
        hung = [p for p, r in results.items() if r.get('hung') or r.get('timeout')]
        obs.append(fin)
        trace = [[s['p'], s['op'], s['raw'], s['res']] for s in steps]
        from harness import opspec
        return {'scen': scen, 'preempts': preempts, 'obs': obs, 'nsteps': len(steps), 'hung': hung, 'trace': trace,
                'events': opspec.events_of_steps(box, steps),
                'first': {p: next((i for i, s in enumerate(steps) if s['p'] == p), None) for p in pn}}
    finally:
        box.destroy()


def schedules_for(scen, bound, rnd, limit=None, nsteps=None):
    """all preemption sets of size <= bound over the steps of the baseline run (targets: the other processes)"""
    kinds, _ = PUT_SCENARIOS[scen]
    pn = ['p%d' % (i + 1) for i in range(len(kinds))]
    n = nsteps
    out = [{}]
    for b in range(1, bound + 1):
        for ks in itertools.combinations(range(n), b):
            for tg in itertools.product(pn, repeat=b):
                out.append({str(k): t for k, t in zip(ks, tg)})
    if limit and len(out) > limit:
        head = [o for o in out if len(o) <= 1]
        rest = [o for o in out if len(o) > 1]
        rnd.shuffle(rest)
        out = head + rest[:max(0, limit - len(head))]
    return out


# ---- C05: crash points -----------------------------------------------------------------------------

def baseline_ops(scen, seed=0, extra_shim=None):
    kinds, kw = scenario(scen)
    runner.prepare()
    box = make_box(kinds, kw, seed)
    try:
        res = runner.run('trash-put', put_args(box), os.path.join(box.root, 'cwd'), box.env(),
                         shim_cfg=box.shim(**(extra_shim or {})), now=(2020, 1, 1, 0, 0, 0))
        ops = [e for e in res['trace'] if 'seq' in e]
        return len(ops), [[e['op'], e['raw'], e['res']] for e in ops], res['exit']
    finally:
        box.destroy()


def run_crash(args):
    """mode 'kill': the process dies (no handler runs) just before operation k; 'intr' / 'intr_after': it is interrupted
    (Ctrl-C: KeyboardInterrupt, handlers and finally blocks run) just before operation k / when operation k returns"""
    scen, k, seed = args[:3]
    mode = args[3] if len(args) > 3 else 'kill'
    runner.prepare()
    kinds, kw = scenario(scen)
    box = make_box(kinds, kw, seed)
    try:
        how = {'kill': dict(crash_at=k), 'intr': dict(intr_at=k), 'intr_after': dict(intr_after=k),
               'term': dict(intr_at=k, intr_sig='SIGTERM'), 'term_after': dict(intr_after=k, intr_sig='SIGTERM'),
               'hup': dict(intr_at=k, intr_sig='SIGHUP')}[mode]
        res = runner.run('trash-put', put_args(box), os.path.join(box.root, 'cwd'), box.env(),
                         shim_cfg=box.shim(**how), now=(2020, 1, 1, 0, 0, 0))
        creators = {}
        rels = {os.path.relpath(os.fsdecode(sp), box.root): q for q, sp in box.sources.items()}
        cur = 'p1'
        for e in res['trace']:
            for r in e.get('raw') or []:
                if r in rels:
                    cur = rels[r]         # the argument being worked on: the last one whose own path was touched
            oplevel.classify_creator(box, dict(e, p=cur), creators)
        st = box.project(creators)
        last = [e for e in res['trace'] if 'seq' in e][-1:] or [{}]
        killed = res['exit'] in (137, 130, 143, 129, -15, -1, -2)
        return {'scen': scen, 'k': k, 'mode': mode, 'killed': killed, 'exit': res['exit'],
                'obs': {'state': st, 'done': {} if killed else {q: True for q in box.sources},
                        'res': {} if killed else {q: 'ok' if res['exit'] == 0 else 'fail' for q in box.sources}},
                'at': [last[0].get('op'), last[0].get('raw')]}
    finally:
        box.destroy()


# ---- C17: fault points ---------------------------------------------------------------------------------

def run_fault(args):
    scen, faults, seed = args
    runner.prepare()
    kind, kw = SINGLE_SCENARIOS[scen]
    box = make_box([kind], kw, seed)
    try:
        fl = []
        for f in faults:
            if f.get('env') == 'readonly-parent':
                # the directory holding the entry cannot be modified (mode 0555, a sticky directory of another owner, ...):
                # renaming the entry away, unlinking it and removing it all fail, for as long as the command runs
                rel = os.path.relpath(os.fsdecode(box.sources['p1']), box.root)
                fl.append({'match': {'ops': ['rename', 'unlink', 'rmdir'], 'exact': [rel]}, 'errno': f['errno'], 'sticky': True})
            else:
                fl.append(dict(f))
        res = runner.run('trash-put', box.put_argv('p1'), os.path.join(box.root, 'cwd'), box.env(),
                         shim_cfg=box.shim(faults=fl, budget=3000, nofault_ops=['access']),
                         now=(2020, 1, 1, 0, 0, 0),
                         timeout=20)
        creators = {}
        inj = []
        for e in res['trace']:
            oplevel.classify_creator(box, dict(e, p='p1'), creators)
            if e.get('injected'):
                inj.append([e['op'], e['raw'], e['res']])
        st = box.project(creators)
        budget = any(e.get('res') == 'BUDGET' for e in res['trace']) or res['exit'] == 99
        term = not res.get('timeout') and not budget
        # a fault on the removal of the just-created info is a second fault: a stray info is then unavoidable
        unlink_faults = [i for i in inj if i[0] == 'unlink' and i[1] and i[1][0] and '/info/' in i[1][0]]
        return {'scen': scen, 'faults': faults, 'injected': inj, 'terminated': term, 'exit': res['exit'],
                'stderr': res['stderr'][-600:].decode('utf-8', 'replace'), 'uncaught': res.get('uncaught'),
                'nops': len([e for e in res['trace'] if 'seq' in e]),
                'obs': {'state': st, 'done': {'p1': True}, 'faulty': True, 'strayleft': bool(unlink_faults),
                        'res': {'p1': 'ok' if res['exit'] == 0 and not res.get('uncaught') else 'fail'}}}
    finally:
        box.destroy()


# ---- sequential: many same-named puts (past the _99 -> random suffix boundary) -------------------------------

def run_many(args):
    n, seed = args
    runner.prepare()
    rnd = random.Random('many|%s' % seed)
    kinds = [rnd.choice(['file', 'dir', 'link', 'empty']) for _ in range(n)]
    box = oplevel.OpBox(seed=seed, pre_pay=[('t1', b'n_3', 'dir'), ('t1', b'n_50', 'file')], pre_info=[('t1', b'n_7'), ('t1', b'n_99')])
    try:
        for i, k in enumerate(kinds):
            box.add_source('q%d' % i, k)
        box.baseline()
        exits = []
        for i in range(n):
            res = runner.run('trash-put', box.put_argv('q%d' % i), os.path.join(box.root, 'cwd'), box.env(),
                             shim_cfg=box.shim(trace=False), now=(2020, 1, 1, 0, 0, i % 60))
            exits.append(res['exit'])
        st = box.project({})
        pairs = 0
        problems = list(st['notes'])
        owners = {}
        for a, v in st['pay']['t1'].items():
            if v['st'] == 'whole':
                inf = st['info']['t1'].get(a)
                if not inf or inf['st'] != 'full' or inf['owner'] != v['owner']:
                    problems.append('payload %s of %s has info %s' % (a, v['owner'], inf))
                if v['owner'] in owners:
                    problems.append('%s trashed twice' % v['owner'])
                owners[v['owner']] = a
                pairs += 1
            elif v['st'] != 'pre':
                problems.append('slot %s: %s' % (a, v))
        for q, s in st['src'].items():
            if s != 'gone':
                problems.append('source %s is %s' % (q, s))
        if pairs != n:
            problems.append('%d complete pairs for %d puts' % (pairs, n))
        if any(e != 0 for e in exits):
            problems.append('exit codes %s' % sorted(set(exits)))
        if st['clobbered']:
            problems.append('pre-existing entry changed')
        randoms = [a for a in st['pay']['t1'] if a.startswith('n') and a[1:].isdigit() and int(a[1:]) >= 100]
        return {'n': n, 'pairs': pairs, 'problems': problems, 'random_suffixes': len(randoms)}
    finally:
        box.destroy()


# ---- C15: crash points of trash-restore / trash-empty / trash-rm -------------------------------------------------

import shutil as _shutil
import tempfile as _tempfile
from harness import world as _world

PURGE_SCENARIOS = {
    # name: (command, argv builder key, selected entries, cross-volume restore?)
    'empty-all':     ('empty', [], ['e1', 'e2', 'e3', 'e4']),
    'empty-days':    ('empty', ['1'], ['e1', 'e2']),
    'rm-all':        ('rm', ['*'], ['e1', 'e2', 'e3', 'e4']),
    'rm-one':        ('rm', ['*e2'], ['e2']),
    'restore-all':   ('restore', ['0-3'], ['e1', 'e2', 'e3', 'e4']),
    'restore-tree':  ('restore', ['1'], ['e2']),
    'restore-two':   ('restore', ['3,0'], ['e1', 'e4']),
}
# --overwrite with something living at the original locations of e1 (a file), e3 (a dangling link) and e4 (a file, other volume)
PURGE_SCENARIOS['restore-overwrite'] = ('restore', ['0-3', '--overwrite'], ['e1', 'e2', 'e3', 'e4'])
PURGE_SCENARIOS['restore-overwrite-one'] = ('restore', ['0', '--overwrite'], ['e1'])
OCCUPIED = {'restore-overwrite': ['e1', 'e3', 'e4'], 'restore-overwrite-one': ['e1', 'e3', 'e4']}
# the same with e3 a symlink to an EXISTING directory outside the trash (it must be unlinked, never followed or "rmtree"d)
for _k in ('empty-all', 'rm-all', 'restore-all'):
    PURGE_SCENARIOS[_k + '@dirlink'] = PURGE_SCENARIOS[_k]
# files/ of the trash directory is itself a symbolic link to a directory elsewhere (payloads kept on another disk), and the
# directory the command is started from holds entries named like the payloads: they are not what is to be purged
for _k in ('empty-all', 'rm-all'):
    PURGE_SCENARIOS[_k + '@fileslink'] = PURGE_SCENARIOS[_k]


# names under files/ and info/: ordinary ones, and one that consists of dots only
SLOTNAME = {'e4': '...', 'o1': '....'}


class PurgeBox(object):
    """home trash with four entries: e1 file, e2 deep tree (restores across volumes), e3 link, e4 file on the other
    volume; two orphans (a file and a tree)"""

    def __init__(self, uid=1000, link='dangling', occupied=(), fileslink=False):
        self.base = _tempfile.mkdtemp(prefix='vp-', dir=_world.SHM)
        self.occupied = list(occupied)
        self.occ_dig = {}
        self.root = os.path.join(self.base, 'w')
        self.uid = uid
        self.home = os.path.join(self.root, 'home', 'u')
        os.makedirs(self.home)
        os.makedirs(os.path.join(self.root, 'm1'))
        os.makedirs(os.path.join(self.root, 'cwd'))
        self.mounts = [self.root, os.path.join(self.root, 'm1')]
        self.tdir = os.path.join(self.home, '.local', 'share', 'Trash')
        if fileslink:
            store = os.path.join(self.root, 'store', 'trash-files')
            os.makedirs(store)
            os.makedirs(self.tdir)
            os.symlink(store, os.path.join(self.tdir, 'files'))
        else:
            os.makedirs(os.path.join(self.tdir, 'files'))
        os.makedirs(os.path.join(self.tdir, 'info'))
        self.bystanders = []
        if fileslink:
            for e in ('e1', 'e2', 'e4', 'o1', 'o2'):
                b = os.path.join(self.root, 'cwd', SLOTNAME.get(e, 'slot-' + e))
                if e in ('e2', 'o2'):
                    os.makedirs(os.path.join(b, 'keep'))
                else:
                    with open(b, 'w') as fh:
                        fh.write('not in the trash')
                self.bystanders.append(b)
        self.dest = {'e1': os.path.join(self.root, 'r', 'sub', 'name e1'), 'e2': os.path.join(self.root, 'm1', 'r', 'tree-e2'),
                     'e3': os.path.join(self.root, 'r', 'link-e3'), 'e4': os.path.join(self.root, 'm1', 'file-e4')}
        self.dates = {'e1': '2020-01-01T00:00:01', 'e2': '2020-01-01T00:00:02', 'e3': '2020-01-05T00:00:03', 'e4': '2020-01-05T00:00:04'}
        self.dig = {}
        self.keep = None
        f = os.path.join(self.tdir, 'files')
        for e in ('e1', 'e2', 'e3', 'e4', 'o1', 'o2'):
            p = os.path.join(f, SLOTNAME.get(e, 'slot-' + e))
            if e in ('e1', 'e4', 'o1'):
                with open(p, 'w') as fh:
                    fh.write('payload of %s' % e + 'x' * 3000)
            elif e == 'e3':
                if link == 'dir':
                    keep = os.path.join(self.root, 'keep-dir')
                    os.makedirs(os.path.join(keep, 'sub'))
                    with open(os.path.join(keep, 'sub', 'precious'), 'w') as fh:
                        fh.write('outside the trash')
                    os.symlink(keep, p)
                    self.keep = keep
                    self.keep_dig = _world.digest_of_sub(_world.snapshot_sub(os.fsencode(keep)))
                else:
                    os.symlink('/nonexistent/target-of-e3', p)
            else:
                os.makedirs(os.path.join(p, 'a', 'b'))
                for i, q in enumerate(['x', 'a/y', 'a/b/z']):
                    with open(os.path.join(p, q), 'w') as fh:
                        fh.write('%s %s %d' % (e, q, i))
                os.symlink('../x', os.path.join(p, 'a', 'l'))
            self.dig[e] = _world.digest_of_sub(_world.snapshot_sub(os.fsencode(p)))
            if e.startswith('e'):
                with open(os.path.join(self.tdir, 'info', SLOTNAME.get(e, 'slot-' + e) + '.trashinfo'), 'wb') as fh:
                    fh.write(_world.format_info(os.fsencode(self.dest[e]), self.dates[e]))
            if e in self.occupied:
                d = self.dest[e]
                os.makedirs(os.path.dirname(d), exist_ok=True)
                if e == 'e3':
                    os.symlink('/nonexistent/occupant-of-e3', d)
                else:
                    with open(d, 'w') as fh:
                        fh.write('occupant of %s' % e)
                self.occ_dig[e] = _world.digest_of_sub(_world.snapshot_sub(os.fsencode(d)))

    def destroy(self):
        _shutil.rmtree(self.base, ignore_errors=True)

    def env(self, extra=None):
        e = {'PATH': '/usr/bin:/bin', 'HOME': self.home, 'TRASH_DATE': '2020-01-03T00:00:00'}
        if extra:
            e.update(extra)
        return e

    def shim(self, **kw):
        c = {'root': self.root, 'mounts': self.mounts, 'uid': self.uid, 'seed': 1, 'trace': True}
        c.update(kw)
        return c

    def run(self, cmd, args, **shimkw):
        if cmd == 'restore':
            return runner.run('trash-restore', list(args[1:]) + ['/'], os.path.join(self.root, 'cwd'), self.env(), stdin=args[0].encode() + b'\n',
                              shim_cfg=self.shim(**shimkw), timeout=20)
        return runner.run('trash-' + cmd, list(args), os.path.join(self.root, 'cwd'), self.env(), shim_cfg=self.shim(**shimkw), timeout=20)

    def outside_intact(self):
        if any(not os.path.lexists(b) or (os.path.isdir(b) and not os.path.isdir(os.path.join(b, 'keep'))) for b in self.bystanders):
            return False
        return self.keep is None or (os.path.isdir(self.keep) and
                                     _world.digest_of_sub(_world.snapshot_sub(os.fsencode(self.keep))) == self.keep_dig)

    def project(self):
        info, pay, dest = {}, {}, {}
        for e in ('e1', 'e2', 'e3', 'e4', 'o1', 'o2'):
            p = os.fsencode(os.path.join(self.tdir, 'files', SLOTNAME.get(e, 'slot-' + e)))
            if os.path.lexists(p):
                pay[e] = 'whole' if _world.digest_of_sub(_world.snapshot_sub(p)) == self.dig[e] else 'partial'
            else:
                pay[e] = 'gone'
            if e.startswith('e'):
                info[e] = 'present' if os.path.lexists(os.path.join(self.tdir, 'info', SLOTNAME.get(e, 'slot-' + e) + '.trashinfo')) else 'gone'
                d = os.fsencode(self.dest[e])
                if os.path.lexists(d):
                    dg = _world.digest_of_sub(_world.snapshot_sub(d))
                    dest[e] = 'whole' if dg == self.dig[e] else 'other' if dg == self.occ_dig.get(e) else 'partial'
                else:
                    dest[e] = 'absent'
        return info, pay, dest


def purge_baseline(scen):
    runner.prepare()
    cmd, args, sel = PURGE_SCENARIOS[scen]
    box = PurgeBox(link='dir' if scen.endswith('@dirlink') else 'dangling', occupied=OCCUPIED.get(scen, ()), fileslink=scen.endswith('@fileslink'))
    try:
        res = box.run(cmd, args)
        ops = [e for e in res['trace'] if 'seq' in e]
        info, pay, dest = box.project()
        return len(ops), [[e['op'], e['raw'], e['res']] for e in ops], res['exit'], {'info': info, 'pay': pay, 'dest': dest}
    finally:
        box.destroy()


def run_purge_crash(args):
    scen, k = args
    runner.prepare()
    cmd, argv, sel = PURGE_SCENARIOS[scen]
    box = PurgeBox(link='dir' if scen.endswith('@dirlink') else 'dangling', occupied=OCCUPIED.get(scen, ()), fileslink=scen.endswith('@fileslink'))
    try:
        res = box.run(cmd, argv, crash_at=k)
        killed = res['exit'] == 137
        info, pay, dest = box.project()
        last = [e for e in res['trace'] if 'seq' in e][-1:] or [{}]
        o1 = {'info': info, 'pay': pay, 'dest': dest, 'done': not killed, 'cmd': cmd, 'selected': sel, 'purged': False,
              'occupied': OCCUPIED.get(scen, [])}
        # recovery: empty / rm are simply run again; what a killed restore leaves in the trash must be purgeable
        o_retry = None
        if cmd == 'restore':
            # first the user tries again, entry by entry, with --overwrite (the first attempt may have left the entry at its
            # place AND its info in the trash): nothing may get lost by that
            # (a directory at the destination of the tree entry e2 - half copied, or whole with the removal of the payload
            # still under way - makes --overwrite an overwrite onto a directory, which the properties leave open: there the
            # retry is made without the switch and must be refused)
            half = any(v == 'partial' for v in dest.values()) or (info.get('e2') == 'present' and dest.get('e2') != 'absent')
            for idx in ('3', '2', '1', '0'):
                box.run('restore', [idx] if half else [idx, '--overwrite'])
            info_r, pay_r, dest_r = box.project()
            o_retry = {'info': info_r, 'pay': pay_r, 'dest': dest_r, 'done': False, 'cmd': 'restore',
                       'selected': ['e1', 'e2', 'e3', 'e4'], 'purged': False, 'occupied': OCCUPIED.get(scen, [])}
            dest = dest_r
            r2 = box.run('empty', [])
        else:
            r2 = box.run(cmd, argv)
        info2, pay2, dest2 = box.project()
        o2 = {'info': info2, 'pay': pay2, 'dest': dest2, 'done': cmd != 'restore',
              'cmd': cmd if cmd != 'restore' else 'recovery-purge',
              'selected': sel if cmd != 'restore' else ['e1', 'e2', 'e3', 'e4'], 'purged': cmd == 'restore',
              'occupied': OCCUPIED.get(scen, [])}
        if cmd == 'restore':
            # destinations reached before the kill must survive the recovery purge untouched
            o2['dest_kept'] = all(dest2[e] == dest[e] for e in dest)
        return {'scen': scen, 'k': k, 'killed': killed, 'at': [last[0].get('op'), last[0].get('raw')], 'after_kill': o1,
                'outside_intact': box.outside_intact(), 'after_retry': o_retry,
                'after_rerun': o2, 'rerun_exit': r2['exit'], 'rerun_err': r2['stderr'][-300:].decode('utf-8', 'replace')}
    finally:
        box.destroy()


def run_purge_fault(args):
    """trash-rm with errno e instead of its k-th operation: the projected final state (judged like a state of a purge in
    progress: an entry is never torn apart - a payload still there keeps its info)"""
    scen, k, e = args
    runner.prepare()
    cmd, argv, sel = PURGE_SCENARIOS[scen]
    box = PurgeBox(link='dir' if scen.endswith('@dirlink') else 'dangling', occupied=OCCUPIED.get(scen, ()), fileslink=scen.endswith('@fileslink'))
    try:
        res = box.run(cmd, argv, faults=[{'at': k, 'errno': e, 'sticky': False}])
        info, pay, dest = box.project()
        inj = [[ev['op'], ev['raw']] for ev in res['trace'] if ev.get('injected')]
        return {'scen': scen, 'k': k, 'errno': e, 'injected': inj, 'exit': res['exit'], 'outside_intact': box.outside_intact(),
                'stderr': res['stderr'][-300:].decode('utf-8', 'replace'),
                'state': {'info': info, 'pay': pay, 'dest': dest, 'done': False, 'cmd': cmd, 'selected': sel, 'purged': False, 'occupied': []}}
    finally:
        box.destroy()


def purge_state_trace(args):
    """run a purge scenario in lock-step with every operation a step; -> the sequence of projected states"""
    scen, permute_seed = args
    runner.prepare()
    cmd, argv, sel = PURGE_SCENARIOS[scen]
    box = PurgeBox(link='dir' if scen.endswith('@dirlink') else 'dangling', occupied=OCCUPIED.get(scen, ()), fileslink=scen.endswith('@fileslink'))
    try:
        import select as _select
        from harness import oplevel
        a_r, a_w = os.pipe()
        t_r, t_w = os.pipe()
        cfg = box.shim(pname='p1', lockstep={'ann': a_w, 'tok': t_r, 'shared': []}, permute=bool(permute_seed), seed=permute_seed)
        if cmd == 'restore':
            h = runner.spawn('trash-restore', list(argv[1:]) + ['/'], os.path.join(box.root, 'cwd'), box.env(), stdin=argv[0].encode() + b'\n', shim_cfg=cfg)
        else:
            h = runner.spawn('trash-' + cmd, list(argv), os.path.join(box.root, 'cwd'), box.env(), shim_cfg=cfg)
        os.close(a_w)
        os.close(t_r)
        pr = oplevel.Proc()
        pr.ann_r, pr.tok_w, pr.buf, pr.want, pr.alive, pr.events, pr.h = a_r, t_w, b'', None, True, [], h
        states = []
        ops = []
        oplevel.advance_to_want(pr)
        while pr.alive and pr.want is not None and len(states) < 2000:
            w = pr.want
            os.write(pr.tok_w, b'g')
            pr.want = None
            oplevel.advance_to_want(pr)
            info, pay, dest = box.project()
            st = {'info': info, 'pay': pay, 'dest': dest}
            ops.append([w['op'], w['raw']])
            if not states or states[-1] != st:
                states.append(st)
        res = runner.finish(h, timeout=10)
        for fd in (a_r, t_w):
            try:
                os.close(fd)
            except OSError:
                pass
        return {'scen': scen, 'states': states, 'nops': len(ops), 'exit': res['exit'], 'outside_intact': box.outside_intact()}
    finally:
        box.destroy()


# ---- trash-put running next to trash-empty DAYS (spec/PutEmpty.tla, WithDays) ----------------------------------

PUT_VS_EMPTY = {'tdir_exists': True,
                'pre_info': [('t1', b'old-a'), ('t1', b'old-b'), ('t1', 'n1')],
                'pre_pay': [('t1', b'old-a', 'file'), ('t1', b'old-b', 'dir'), ('t1', 'n1', 'file')]}


def run_put_vs_empty(args):
    """one lock-step schedule of a real trash-put (p1) and a real `trash-empty 30` (p2) on one trash directory that holds
    old entries; -> the projected states after every step and at the end (pre-existing entries left out: purging them is
    the emptier's job)"""
    kind, preempts, seed = args
    runner.prepare()
    box = make_box([kind], PUT_VS_EMPTY, seed)
    try:
        steps, results, creators = oplevel.run_schedule(
            box, ['p1', 'p2'], oplevel.policy_from_preemptions({int(k): v for k, v in preempts.items()}),
            commands={'p2': ('trash-empty', ['30'])})

        pre_abs = set((k[0], box.slot_abs(k[2][:-10] if k[1] == 'info' and k[2].endswith(b'.trashinfo') else k[2])) for k in box.base)

        def own_only(st):
            st = dict(st, clobbered=False, notes=[])
            for key in ('info', 'pay'):
                st[key] = {t: {a: v for a, v in m.items() if (t, a) not in pre_abs} for t, m in st[key].items()}
            return st
        obs = [{'state': own_only(s['state']), 'done': {}, 'res': {}, 'k': s['k'], 'p': s['p'], 'op': s['op'], 'raw': s['raw']} for s in steps]
        st = own_only(box.project(creators))
        r1 = results['p1']
        obs.append({'state': st, 'done': {'p1': True}, 'res': {'p1': 'ok' if r1['exit'] == 0 else 'fail'}, 'final': True,
                    'exit': {p: r['exit'] for p, r in results.items()},
                    'stderr': (r1['stderr'][-200:] + results['p2']['stderr'][-200:]).decode('utf-8', 'replace')})
        old_left = sorted(k[2].decode('latin-1') for k in box.base if os.path.lexists(os.path.join(os.fsencode(box.tdirs[k[0]]), os.fsencode(k[1]), k[2])))
        hung = [p for p, r in results.items() if r.get('hung') or r.get('timeout')]
        return {'kind': kind, 'preempts': preempts, 'obs': obs, 'nsteps': len(steps), 'hung': hung, 'old_left': old_left,
                'p2_exit': results['p2']['exit']}
    finally:
        box.destroy()


# ---- state-based design conformance of trash-put (spec/PutStateTrace.tla) --------------------------------------

def put_state_trace(args):
    """the uninterrupted run of a single scenario in lock-step with EVERY operation a step: -> the sequence of distinct
    projected states after the initial one, and the constants of the scenario for the validator"""
    scen, seed = args
    runner.prepare()
    kinds, kw = scenario(scen)
    box = make_box(kinds, kw, seed)
    try:
        keys = ('parts', 'info', 'pay', 'src')
        last = {k: box.project({})[k] for k in keys}
        steps, results, creators = oplevel.run_schedule(box, ['p1'], lambda k, r, c: r[0],
                                                        commands={'p1': ('trash-put', put_args(box))}, all_ops=True, max_steps=4000)
        seq = []
        for s in steps:
            st = {k: s['state'][k] for k in keys}
            if st != last:
                seq.append(st)
                last = st
        ab = lambda s_: s_ if isinstance(s_, str) else box.slot_abs(s_)
        preinfo = [[t, ab(s_)] for t, s_ in kw.get('pre_info', [])]
        prepay = [[t, ab(s_)] for t, s_, k_ in kw.get('pre_pay', [])]
        return {'scen': scen, 'states': seq, 'exit': results['p1']['exit'], 'nops': len(steps),
                'consts': {'procs': sorted(box.sources), 'preinfo': preinfo, 'prepay': prepay,
                           'extra_slots': sorted(set(a for t, a in preinfo + prepay if not (a == 'n' or a[1:].isdigit()))),
                           'dirs_exist': ['t1'] if (kw.get('tdir_exists') or preinfo or prepay) else [],
                           'copy_cands': ['t1'] if kw.get('fallback') else [],
                           'file_procs': [p for p, k in zip(sorted(box.sources), kinds) if k != 'dir'],
                           'link_procs': [p for p, k in zip(sorted(box.sources), kinds) if k == 'link'],
                           'toolong': ['n'] if box.long_name() else []}}
    finally:
        box.destroy()

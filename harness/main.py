"""./check <ID> [--tier quick|thorough] [--replay file]"""
from __future__ import annotations

import argparse
import importlib
import os
import sys
import traceback

from harness import framework


def main():
    import faulthandler, signal
    faulthandler.register(signal.SIGUSR1, all_threads=True)      # kill -USR1 <pid> prints where a run is
    ap = argparse.ArgumentParser()
    ap.add_argument('pid')
    ap.add_argument('--tier', default=os.environ.get('VERIF_TIER', 'quick'), choices=['quick', 'thorough'])
    ap.add_argument('--replay')
    ap.add_argument('--seed', type=int, default=int(os.environ.get('VERIF_SEED', '0') or 0))
    a = ap.parse_args()
    pid = a.pid.upper()
    try:
        mod = importlib.import_module('harness.checks.%s' % pid.lower())
    except ImportError:
        traceback.print_exc()
        print('MACHINERY-FAILURE: no check for %s' % pid)
        return 2
    if a.replay:
        return mod.replay(a.replay)
    from harness import tt
    tt.get_pool(min(16, os.cpu_count() or 4))     # fork the workers while this process is small
    chk = framework.Check(pid, a.tier, a.seed)
    try:
        mod.run(chk)
    except Exception:
        chk.machinery.append(traceback.format_exc())
    finally:
        tt.close_pool()
    return chk.finish()


if __name__ == '__main__':
    sys.exit(main())

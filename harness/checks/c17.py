"""C17 - under file-system errors trash-put terminates, falls back, and reports honestly."""
import random

from harness import opdrivers, tt
from harness.checks import opcommon

ERRNOS_Q = ['EACCES', 'EROFS', 'ENOSPC', 'EIO', 'ENAMETOOLONG']
ERRNOS_T = ['EACCES', 'EPERM', 'EROFS', 'ENOSPC', 'EIO', 'ENAMETOOLONG', 'ENOENT', 'EBUSY', 'EXDEV', 'EEXIST', 'EMFILE']
REQ = ['NoOverwrite', 'UniqueOwnership', 'InfoBeforePayload', 'NothingLost', 'FinalStateIsC01']


def fault_key(it):
    inj = it['injected'][0] if it['injected'] else ['none', [None], '']
    op = inj[0]
    path = (inj[1] or [None])[-1] or ''
    where = 'probe' if op in ('stat', 'lstat') and '/files/' in path else \
            'source' if '/src/' in path or path.startswith('src/') else \
            'info' if '/info/' in path else 'payload' if '/files/' in path else 'dirs'
    phase = 'copy' if it['scen'].startswith('fallback') and it.get('after_rename') else 'plain'
    if it['faults'] and 'env' in it['faults'][0]:
        return '%s:%s:%s:%s' % (phase, it['faults'][0]['env'], op, where)
    return '%s:%s:%s' % (phase, op, where)


def run(chk):
    quick = chk.tier == 'quick'
    errnos = ERRNOS_Q if quick else ERRNOS_T
    chk.rule = ('(1) TLC: spec/PutOps.tla with one and two one-shot faults and with persistent (sticky) faults on every '
                'operation kind, two candidates, copy + delete candidate: FinalStateIsC01, NothingLost, InfoBeforePayload '
                'are invariants and Termination holds under weak fairness (a retry loop under a persistent error is a '
                'lasso TLC finds: mutant "retryall"). (2) the REAL trash-put runs with errno e injected at operation k, '
                'for every k of the uninterrupted run, e in %s, one-shot and sticky (every later operation of the same '
                'kind in the same directory fails too), per scenario; plus the environment fault "the directory holding the '
                'entry cannot be modified" (rename, unlink and rmdir of the entry all fail with EACCES / EPERM / EROFS for '
                'the whole run); thorough uses the longer errno list; an operation '
                'budget and a wall-clock limit turn non-termination into an observation; the final projected state is '
                'judged by TLC (FsTrace): fully trashed in one trash directory or untouched with a failure exit and no '
                'stray info / orphan payload. distinct = (scenario, k, errno, mode)' % errnos)
    chk.assumptions += opcommon.ASSUME + [
        'a persistent EEXIST on the exclusive creation (every name taken, for ever) is not a file-system error and is not injected',
        'a fault on the removal of the just-created .trashinfo after another fault is a second fault: the stray info it leaves is accepted']
    opcommon.model_runs(chk, [
        ('faults1', dict(procs=('p1',), cands=('t1', 't2'), max_faults=1, dirs_exist=('t1',))),
        ('faults2', dict(procs=('p1',), cands=('t1', 't2'), max_faults=2, copy_cands=('t2',))),
        ('sticky_create', dict(procs=('p1',), cands=('t1', 't2'), sticky=[('t1', 'create')])),
        ('sticky_write', dict(procs=('p1',), cands=('t1', 't2'), sticky=[('t1', 'write'), ('t2', 'rename')])),
        ('sticky_all', dict(procs=('p1',), cands=('t1', 't2'), sticky=[('t1', 'mkdir'), ('t2', 'create')])),
        ('two_faulty', dict(procs=('p1', 'p2'), cands=('t1',), slots=('n', 'n1'), max_faults=1)),
    ])
    rnd = random.Random('c17|%s' % chk.seed)
    jobs = []
    jobs_env = []
    rename_at = {}
    for scen in opdrivers.SINGLE_SCENARIOS:
        n, ops, ex = opdrivers.baseline_ops(scen, chk.seed)
        rename_at[scen] = next((i + 1 for i, o in enumerate(ops) if o[0] == 'rename'), n + 1)
        for k in range(1, n + 1):
            for e in errnos:
                for sticky in (False, True):
                    if sticky and e == 'EEXIST':
                        continue
                    jobs.append((scen, [{'at': k, 'errno': e, 'sticky': sticky}], chk.seed))
        for e in ('EACCES', 'EPERM', 'EROFS'):
            jobs_env.append((scen, [{'env': 'readonly-parent', 'errno': e}], chk.seed))
        # (pairs of independent faults are not injected: the property speaks of an error returned to a single operation; a
        # second, unrelated error during the clean-up after the first is outside it - an earlier version of the thorough
        # tier sampled such pairs and raised alarms the property does not support)
    if quick and len(jobs) > 4200:
        rnd.shuffle(jobs)
        jobs = jobs[:4200]
    jobs += jobs_env
    out = tt.pmap(opdrivers.run_fault, jobs)
    items = []
    for o in out:
        chk.traces += 1
        f = o['faults'][0]
        chk.count('faults', 1, key='%s|%s' % (o['scen'], o['faults']), nontrivial=bool(o['injected']))
        o['after_rename'] = bool(o['faults']) and (o['faults'][0].get('at', 0) > rename_at[o['scen']] or (
            'env' in o['faults'][0] and o['scen'].startswith('fallback') and len(o['injected']) > 0 and o['injected'][0][0] != 'rename'))
        if not o['terminated']:
            chk.violation('faults:%s:nontermination' % fault_key(o),
                          'trash-put did not terminate within the operation budget: scenario %s, faults %s, injected %s' % (
                              o['scen'], o['faults'], o['injected'][:2]),
                          {'kind': 'fault', 'item': opcommon.it_slim(o)})
            continue
        if o.get('uncaught'):
            chk.violation('faults:%s:traceback' % fault_key(o),
                          'trash-put ended with an uncaught exception: scenario %s, faults %s: %s' % (o['scen'], o['faults'], o['stderr'][-300:]),
                          {'kind': 'fault', 'item': opcommon.it_slim(o)})
        items.append(o)
    chk.sample({'scenario': out[0]['scen'], 'fault': out[0]['faults'], 'injected at': out[0]['injected'][:1], 'exit': out[0]['exit'],
                'final state': out[0]['obs']['state']}, limit=3)
    opcommon.judge(chk, 'faults', items, lambda it: it['obs'], fault_key, lambda it: REQ,
                   what_of=lambda it: 'scenario %s, faults %s, injected %s, exit %s: %s | %s' % (
                       it['scen'], it['faults'], it['injected'][:2], it['exit'], it['obs']['state'], it['stderr'][-200:]))


def replay(path):
    print('re-run ./check C17: fault points are enumerated from the seed')
    return 2

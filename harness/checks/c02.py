"""C02 - put then restore returns the exact entry to its exact original path."""
from harness import stages
from harness.checks import common


def run(chk):
    quick = chk.tier == 'quick'
    chk.rule = ('behaviours simulated by TLC from spec/Sim_Trash.tla (puts, restores, purges, re-creations, removed '
                'parents, ticks) replayed with real commands only: real trash-put output is what real trash-restore '
                'reads; objects are recognised by a digest of bytes, tree, link targets, modes and mtimes, so "restored" '
                'means identical; plus TLC-enumerated restore transitions over layouts, sort modes, scopes and replies. '
                'non-trivial = the step changed the state; distinct by command sequence x concrete names')
    chk.assumptions += common.ASSUME + ['names that are not valid UTF-8 are covered by C16/C03 (known finding there)']
    common.mc(chk, properties=['PutVolumeOK'])
    common.behaviours(chk, 'roundtrip', 60 if quick else 600, 9)
    common.gen_tt(chk, 'restore-select', 'Init_Many', 'Next_RestoreSel', 6, 1500,
                  strat=lambda g: (g['lab']['sort'], g['lab']['reply']['k'], g['lab']['from']['k'],
                                   len(g['allowed'][0]['lab']['listing']), bool(g['pre']['strays']),
                                   len(g['cfg']['mounted'])))
    # the index given to an entry must not depend on its neighbours being well-formed: restores (every sort mode) from a
    # trash that also holds undated entries, infos without Path and files that are no infos
    groups = [g for g in stages.generate(chk, 'restore-among-malformed', 'Init_Junk', 'Next_Junk', dict(common.C, MaxObj=9, GenLevel=1))
              if g['lab']['cmd'] == 'restore']
    stages.transition_tests(chk, 'restore-among-malformed', groups, sample=400 if quick else None, per_stratum=3,
                            strat=lambda g: (g['lab']['sort'], str(g['lab']['reply']), len(g['pre']['junk']),
                                             any(i['date'] == -1 for i in g['pre']['items'])),
                            opts_fn=lambda g, seed: {'shim': {'permute': True}})


def replay(path):
    return stages.replay_case(path)

"""C02 - put then restore returns the exact entry to its exact original path."""
from harness import stages
from harness.checks import common


def run(chk):
    quick = chk.tier == 'quick'
    chk.rule = ('behaviours simulated by TLC from spec/Sim_Trash.tla (puts, restores, purges, re-creations, removed '
                'parents, ticks) replayed with real commands only: real trash-put output is what real trash-restore '
                'reads; objects are recognised by a digest of bytes, tree, link targets, modes and mtimes, so "restored" '
                'means identical; plus TLC-enumerated restore transitions over layouts, sort modes, scopes and replies. '
                'non-trivial = the step changed the state; distinct by command sequence x concrete names')
    chk.assumptions += common.ASSUME + ['names that are not valid UTF-8 are covered by C16/C03 (known finding there)']
    common.mc(chk, properties=['PutVolumeOK'])
    common.behaviours(chk, 'roundtrip', 60 if quick else 600, 9)
    common.gen_tt(chk, 'restore-select', 'Init_Many', 'Next_RestoreSel', 6, 1500,
                  strat=lambda g: (g['lab']['sort'], g['lab']['reply']['k'], g['lab']['from']['k'],
                                   len(g['allowed'][0]['lab']['listing']), bool(g['pre']['strays']),
                                   len(g['cfg']['mounted'])))


def replay(path):
    return stages.replay_case(path)

"""C10 - trash-empty DAYS purges exactly the entries trashed more than DAYS days ago."""
from harness import stages
from harness.checks import common


def run(chk):
    chk.rule = ('TLC enumerates seed states whose entries are dated exactly DAYS days before now, one second either side, '
                'the far past, the future and undated (clock ticks embed as day*86400 + second, Dates.tla), in the home '
                'trash, a volume trash and a --trash-dir, with orphans and infos without payload, times DAYS in 0..3 and '
                'no DAYS; the real trash-empty (clock through TRASH_DATE or the virtual clock) must remove exactly the '
                'doomed pairs and leave the kept ones byte-identical (digest of payload, info unchanged). '
                'non-trivial = something was purged. Calendar stage: random (now, date, DAYS) triples incl. +-1 s, +-1 day, leap days, years 1..9999, malformed and duplicated dates, on the real trash-empty; TLC evaluates Expired through DayNumber (Dates.tla); the embedding of clock ticks into (day, second) is proved for all naturals with TLAPS (spec/DatesProof.tla). Stage concurrent-put: a real trash-put next to a real trash-empty 30 in '
                'lock-step (all single pre-emptions, sampled pairs): what is being trashed is not old and must end as a complete '
                'pair; spec/PutEmpty.tla (WithDays) model-checked')
    chk.assumptions += common.ASSUME + ['orphans are purged with and without DAYS (the property only demands it without)']
    common.mc(chk, properties=['PurgeFrame'])
    common.gen_tt(chk, 'days', 'Init_Dates', 'Next_EmptyDays', 10, 3000,
                  strat=lambda g: (g['lab']['opts']['days'], g['lab']['opts']['td'],
                                   tuple(sorted(i['date'] for i in g['pre']['items'])), bool(g['pre']['orph']),
                                   bool(g['pre']['strays'])), per_stratum=1, thorough_seeds=1)
    common.fun_laws(chk)
    embedding_proof(chk)
    common.fun_stage(chk, 'calendar', 'expiry', 60 if chk.tier == 'quick' else 1500)
    concurrent_put(chk)
    chk.exhaustive = chk.tier != 'quick'


def embedding_proof(chk):
    """the tick rule of Trash.tla (date + DAYS * K < now) IS the calendar rule on (day, second) pairs, for every K > 0 and all
    naturals: spec/DatesProof.tla, proved with TLAPS (Dates!EmbeddingLemma is the same statement, which TLC checks for small
    ranges).  A proof that no longer goes through is a failure of the machinery, not of trash-cli."""
    from harness import opspec
    r = opspec.run_tlaps('DatesProof')
    if not r['ok']:
        chk.machinery.append('TLAPS: spec/DatesProof.tla: %d obligation(s) failed: %s' % (r['failed'], r['detail'][-600:]))
        return
    chk.notes.append('TLAPS (Z3 back end): DatesProof!Embedding proved for all K > 0, a, b, days in Nat: %d obligations, %.1f s' % (
        r['obligations'], r['wall']))
    chk.stage_stats['tlaps:DatesProof'] = {'evaluations': 0, 'nontrivial': 0, 'obligations_proved': r['obligations']}


def concurrent_put(chk):
    """what trash-empty DAYS must keep includes what a trash-put running at the same time is just trashing (it is not old):
    spec/PutEmpty.tla (WithDays) is model-checked, and real trash-put / trash-empty 30 pairs run in lock-step under every
    schedule with up to 2 pre-emptions (sampled beyond 1); every observed state is judged by TLC (FsTrace)"""
    import itertools
    import random
    from harness import opdrivers, opspec, tt
    from harness.checks import opcommon
    for name, kw, must_hold in (('putempty_days', dict(with_days=True), True),
                                ('putempty_days_two', dict(with_days=True, procs=('p1', 'p2'), slots=('n', 'n1', 'n2')), True),
                                ('putempty_days_snapshot', dict(with_days=True, emutant='snapshot'), False)):
        r = opspec.run_putempty(name, **kw)
        if must_hold:
            chk.add_tlc('PutEmpty:' + name, r, constants=str(kw))
        elif r.ok or not r.violated:
            chk.machinery.append('PutEmpty: the snapshot design mutant is not refuted (%s)' % r.error)
    rnd = random.Random('c10|pe|%s' % chk.seed)
    quick = chk.tier == 'quick'
    jobs = []
    for kind in ('file', 'dir'):
        base = opdrivers.run_put_vs_empty((kind, {}, chk.seed))
        n = base['nsteps']
        scheds = [{}] + [{str(k): t} for k in range(n) for t in ('p1', 'p2')]
        two = [{str(a): x, str(b): y} for a, b in itertools.combinations(range(n), 2) for x, y in (('p2', 'p1'), ('p1', 'p2'))]
        rnd.shuffle(two)
        scheds += two[:150 if quick else 3000]
        jobs += [(kind, s_, chk.seed) for s_ in scheds]
    out = tt.pmap(opdrivers.run_put_vs_empty, jobs)
    items, seen = [], set()
    for o in out:
        chk.traces += 1
        chk.evaluations += o['nsteps']
        if o['hung']:
            chk.violation('concurrent-put:hung', 'process(es) %s did not finish under schedule %s' % (o['hung'], o['preempts']), {'kind': 'pe', 'item': o['preempts']})
        if o['old_left'] or o['p2_exit'] != 0:
            chk.violation('concurrent-put:old-entries-left', 'trash-empty 30 (exit %s) left old entries %s under schedule %s' % (
                o['p2_exit'], o['old_left'], o['preempts']), {'kind': 'pe', 'preempts': o['preempts']})
        for ob in o['obs']:
            k = opdrivers.state_key([ob['state'], ob.get('done'), ob.get('res')])
            if k in seen:
                continue
            seen.add(k)
            chk.nontrivial.add(k)
            items.append({'scen': 'put-vs-empty-' + o['kind'], 'preempts': o['preempts'], 'k': ob.get('k'), 'final': bool(ob.get('final')),
                          'obs': ob, 'stderr': ob.get('stderr')})
    chk.stage_stats['concurrent-put'] = {'schedules': len(out), 'distinct_states': len(items)}
    opcommon.judge(chk, 'concurrent-put', items, lambda it: it['obs'], lambda it: it['scen'],
                   lambda it: ['UniqueOwnership', 'InfoBeforePayload', 'NothingLost'] + (['FinalStateIsC01', 'AllSucceed'] if it['final'] else []),
                   what_of=lambda it: '%s, pre-emptions %s, after step %s: %s %s' % (
                       it['scen'], it['preempts'], it['k'], it['obs']['state'], it.get('stderr') or ''))


def replay(path):
    return stages.replay_case(path)

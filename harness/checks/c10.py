"""C10 - trash-empty DAYS purges exactly the entries trashed more than DAYS days ago."""
from harness import stages
from harness.checks import common


def run(chk):
    chk.rule = ('TLC enumerates seed states whose entries are dated exactly DAYS days before now, one second either side, '
                'the far past, the future and undated (clock ticks embed as day*86400 + second, Dates.tla), in the home '
                'trash, a volume trash and a --trash-dir, with orphans and infos without payload, times DAYS in 0..3 and '
                'no DAYS; the real trash-empty (clock through TRASH_DATE or the virtual clock) must remove exactly the '
                'doomed pairs and leave the kept ones byte-identical (digest of payload, info unchanged). '
                'non-trivial = something was purged. Calendar stage: random (now, date, DAYS) triples incl. +-1 s, +-1 day, leap days, years 1..9999, malformed and duplicated dates, on the real trash-empty; TLC evaluates Expired through DayNumber (Dates.tla)')
    chk.assumptions += common.ASSUME + ['orphans are purged with and without DAYS (the property only demands it without)']
    common.mc(chk, properties=['PurgeFrame'])
    common.gen_tt(chk, 'days', 'Init_Dates', 'Next_EmptyDays', 10, 3000,
                  strat=lambda g: (g['lab']['opts']['days'], g['lab']['opts']['td'],
                                   tuple(sorted(i['date'] for i in g['pre']['items'])), bool(g['pre']['orph']),
                                   bool(g['pre']['strays'])), per_stratum=1, thorough_seeds=1)
    common.fun_laws(chk)
    common.fun_stage(chk, 'calendar', 'expiry', 60 if chk.tier == 'quick' else 1500)
    chk.exhaustive = chk.tier != 'quick'


def replay(path):
    return stages.replay_case(path)

"""C16 - trash-put's exit status tells the truth and arguments are handled independently."""
from harness import stages
from harness.checks import common


def run(chk):
    chk.rule = ('TLC enumerates argument lists of 2 and 3 (trashable entries on two volumes, a missing path, a dot entry, '
                'a mount point, an entry whose volume has no usable trash directory, duplicates) in every order with '
                '-f / -i; PutIndependence is checked on the specification; the real run must reach the state PutFold '
                'gives (so each argument has the outcome it has alone), exit 0 iff no failure, and stderr must name '
                'each failed argument. non-trivial = some argument trashed or failed')
    chk.assumptions += common.ASSUME + ['arguments that are not valid UTF-8: see the stage "undecodable"']
    common.mc(chk, properties=['PutIndependence'])
    common.gen_tt(chk, 'put2', 'Init_PutList', 'Next_Put2', 4, None, thorough_seeds=3)
    common.gen_tt(chk, 'put3', 'Init_PutList', 'Next_Put3', 4, 1200, thorough_seeds=2)
    # names that are not valid UTF-8, with and without -v: a diagnostic (or a -v line) about one argument must not stop the rest
    common.gen_tt(chk, 'undecodable', 'Init_PutList', 'Next_Put2', 4, 500,
                  opts_fn=lambda g, seed: {'conc': {'nonutf8': True}})


def replay(path):
    return stages.replay_case(path)

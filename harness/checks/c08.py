"""C08 - an insecure shared $topdir/.Trash is never used, for writing, reading or purging."""
from harness import stages
from harness.checks import common


def run(chk):
    chk.rule = ('TLC enumerates all five commands on every state of $topdir/.Trash (sticky, non-sticky, link to sticky, '
                'link to non-sticky) with a populated .Trash/$uid (an item whose restore target is free, which matches '
                'the rm pattern and is older than DAYS, optionally an orphan); the projection of .Trash/$uid must stay '
                'as the specification says (untouched when insecure), trash-list must report the skipped directory; '
                'all generated cases are executed; stage trash-dirs-report: trash-list --trash-dirs names the directories in use and the '
                'refused ones with the reason, --volumes the mounted volumes; stage all-users: the trash directories of a second user of the '
                'password database beside one\'s own, on every state of $topdir/.Trash: list / --trash-dirs / empty with and without --all-users, rm, restore, put; stage mid-run-change: one trash-put with two arguments of one volume, run in lock-step, '
                '.Trash made insecure (sticky bit removed / replaced by a symlink) between the two: both halves are judged by TLC '
                '(TrashTrace) against PutApply under the state of their own time; non-trivial = state changed or command had to fail')
    chk.assumptions += common.ASSUME
    common.mc(chk, properties=['InsecureFrozen'])
    common.gen_tt(chk, 'insecure', 'Init_Insecure', 'Next_Insecure', 10, None, thorough_seeds=4)
    # what the reading commands would use and what they refuse, as trash-list --trash-dirs reports it (and --volumes)
    common.gen_tt(chk, 'trash-dirs-report', 'Init_Insecure', 'Next_ListDirs', 10, None, thorough_seeds=3)
    # two users: what --all-users lists, reports and purges on every state of $topdir/.Trash (.Trash/$uid of BOTH users is
    # judged by the state of .Trash), and what every command without --all-users leaves alone
    common.gen_tt(chk, 'all-users', 'Init_AllUsers', 'Next_AllUsers', 15, None, thorough_seeds=2)
    midrun_stage(chk)
    chk.exhaustive = True


def midrun_stage(chk):
    """one trash-put with two arguments on a volume whose .Trash stops being secure between the two (see harness/midrun.py)"""
    import random
    from harness import midrun, tlc, tt
    groups = stages.generate(chk, 'mid-run-change', 'Init_PutList', 'Next_Put2', dict(common.C, MaxObj=4, GenLevel=1))
    sel = [g for g in groups if g['cfg']['top']['V1'] == 'sticky' and g['cfg']['altfile'] == []
           and all(a['class'] == 'entry' and a.get('r') == 'V1' for a in g['lab']['args'])
           and g['lab']['args'][0] != g['lab']['args'][1] and not g['lab']['opts']['force'] and g['lab']['opts']['inter'] == 'off'
           and all(any(e['r'] == a['r'] and e['d'] == a['d'] and e['n'] == a['n'] for e in g['pre']['live']) for a in g['lab']['args'])]
    if not sel:
        chk.machinery.append('mid-run-change: no suitable generated case')
        return
    rnd = random.Random('midrun|%s' % chk.seed)
    nseeds = 4 if chk.tier == 'quick' else 40
    jobs = [(g, rnd.randrange(1 << 30), new) for g in sel for new in midrun.CHANGES for _ in range(nseeds)]
    out = tt.pmap(midrun.run_midrun, jobs)
    steps, owners = [], []
    for job, r in zip(jobs, out):
        if r['status'] == 'machinery':
            chk.machinery.append('mid-run-change: %s' % '; '.join(r['diffs'])[:1200])
            continue
        chk.traces += 1
        chk.count('mid-run-change', 1, key='%s|%s' % (r['new'], r['seed']), nontrivial=True)
        if r['status'] == 'mismatch':
            chk.violation('mid-run-change:%s:outside' % r['new'], '; '.join(r['diffs'])[:1000], {'kind': 'midrun', 'new': r['new'], 'seed': r['seed'], 'run': r.get('run')})
        for s_ in r['steps']:
            steps.append(s_)
            owners.append(r)
    if not steps:
        return
    vr, acc = tlc.validate_steps(steps)
    chk.add_tlc('trashtrace:mid-run-change', vr, constants='observed steps=%d' % len(steps))
    if vr.ok:
        for i, r in enumerate(owners):
            if (i + 1) not in acc:
                half = 'first argument (.Trash still sticky)' if i % 2 == 0 else 'second argument (.Trash now %s)' % r['new']
                chk.violation('mid-run-change:%s:%s' % (r['new'], 'arg1' if i % 2 == 0 else 'arg2'),
                              'trash-put a b with $topdir/.Trash changed to %s between the two: the %s did not go where PutApply '
                              'says: %s | %s' % (r['new'], half, steps[i]['post']['items'], (r.get('run') or {}).get('stderr', '')[-300:]),
                              {'kind': 'midrun', 'new': r['new'], 'seed': r['seed'], 'step': steps[i]})


def replay(path):
    return stages.replay_case(path)

"""C08 - an insecure shared $topdir/.Trash is never used, for writing, reading or purging."""
from harness import stages
from harness.checks import common


def run(chk):
    chk.rule = ('TLC enumerates all five commands on every state of $topdir/.Trash (sticky, non-sticky, link to sticky, '
                'link to non-sticky) with a populated .Trash/$uid (an item whose restore target is free, which matches '
                'the rm pattern and is older than DAYS, optionally an orphan); the projection of .Trash/$uid must stay '
                'as the specification says (untouched when insecure), trash-list must report the skipped directory; '
                'all generated cases are executed; non-trivial = state changed or command had to fail')
    chk.assumptions += common.ASSUME
    common.mc(chk, properties=['InsecureFrozen'])
    common.gen_tt(chk, 'insecure', 'Init_Insecure', 'Next_Insecure', 10, None, thorough_seeds=4)
    g = None
    chk.exhaustive = True


def replay(path):
    return stages.replay_case(path)

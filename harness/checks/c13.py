"""C13 - trash-restore offers the right entries and restores exactly the indices chosen."""
from harness import stages
from harness.checks import common


def run(chk):
    chk.rule = ('TLC enumerates trash-restore transitions: scope = / , every directory slot of every region, and single '
                'entries; sort date/path/none; replies = end of input, empty, invalid, every single index (one past '
                'the end included), pairs, 0-1-2 and reversed; all listings the specification allows for the sort '
                'mode are group members and the observation must be one of them; concrete replies are spelled with '
                'ranges, blanks, plus signs and leading zeros; stage reply-order: two or three entries of which two share one original '
                'location, replies 0,1 / 1,0 / 0,1,2 under every sort mode: the indices are restored in the order typed. non-trivial = restored something or had to fail')
    chk.assumptions += common.ASSUME
    common.mc(chk)
    common.gen_tt(chk, 'select', 'Init_Many', 'Next_RestoreSel', 6, 3000,
                  strat=lambda g: (g['lab']['sort'], g['lab']['reply']['k'], str(g['lab']['reply'].get('idx')),
                                   g['lab']['from']['k'], g['lab']['from'].get('r'), g['lab']['from'].get('d'),
                                   len(g['allowed'][0]['lab']['listing'])), per_stratum=1, thorough_seeds=1)
    # the reply is honoured in the order typed: two entries with the same original location, reply '1,0' restores the entry
    # printed at index 1 and refuses index 0 (its destination is taken by then), not the other way round
    common.gen_tt(chk, 'reply-order', 'Init_ClobberSame', 'Next_ClobberSame', 13, None, thorough_seeds=2)
    common.fun_laws(chk)
    common.fun_stage(chk, 'replies', 'reply', 400 if chk.tier == 'quick' else 8000)
    common.fun_stage(chk, 'scope-order', 'scope', 150 if chk.tier == 'quick' else 3000)
    chk.exhaustive = chk.tier != 'quick'


def replay(path):
    return stages.replay_case(path)

"""C04 - a trashed entry is never overwritten: names stay unique, also under concurrency."""
import json
import random

from harness import opdrivers, opspec, stages, tt
from harness.checks import opcommon

ALL = ['NoOverwrite', 'UniqueOwnership', 'InfoBeforePayload', 'NothingLost']


def run(chk):
    quick = chk.tier == 'quick'
    chk.rule = ('(1) TLC checks spec/PutOps.tla exhaustively: 2 and 3 processes trashing same-named entries into one trash '
                'directory, directory creation race, pre-existing payloads without info and infos without payload, suffix '
                'region then colliding "random" names: NoOverwrite, UniqueOwnership, InfoBeforePayload, NothingLost, '
                'FinalStateIsC01, AllSucceed, PreKept over all interleavings, Termination under weak fairness. '
                '(2) 2-3 REAL trash-put processes run in lock-step (every operation on a shared path, reads included, is '
                'a scheduling point); all schedules with <= 2 pre-emptions (quick: a bounded sample of the 2-pre-emption '
                'ones; thorough: all, plus 3 pre-emptions sampled) over scenarios: creation race, existing directory, '
                'collisions with orphans (file, directory, empty directory, dangling link) and strays, mixed kinds, '
                'volume trash directory, names too long for their .trashinfo (shortened names colliding with an orphan and '
                'a stray); the projected state after EVERY operation is judged by TLC (FsTrace) with the '
                'invariants of PutOps; the final state must be N complete pairs. (3) 130 same-named puts in a row '
                '(past the _99 -> random suffix boundary), mixed kinds. distinct = distinct observed states')
    chk.assumptions += opcommon.ASSUME
    opcommon.model_runs(chk, [
        ('two', dict(procs=('p1', 'p2'))),
        ('two_pre', dict(procs=('p1', 'p2'), preinfo=[('t', 'n')], prepay=[('t', 'n1')], dirs_exist=('t',))),
        ('two_rand', dict(procs=('p1', 'p2'), slots=('n',), rand=('r1', 'r2'), prepay=[('t', 'r1')])),
        ('three', dict(procs=('p1', 'p2', 'p3'), slots=('n', 'n1'), preinfo=[('t', 'n')])),
        ('two_long', dict(procs=('p1', 'p2'), slots=('n', 'n1', 'n2', 'n3'), toolong=('n',), prepay=[('t', 'n1')], preinfo=[('t', 'n2')])),
    ])
    rnd = random.Random('c04|%s' % chk.seed)
    items = []
    seen = set()
    nsched = 0
    for scen in opdrivers.PUT_SCENARIOS:
        base = opdrivers.run_one_schedule((scen, {}, chk.seed))
        scheds = opdrivers.schedules_for(scen, 2, rnd, limit=220 if quick else None, nsteps=base['nsteps'])
        if not quick:
            extra = opdrivers.schedules_for(scen, 3, rnd, limit=len(scheds) + 1500, nsteps=base['nsteps'])
            scheds = scheds + [s for s in extra if len(s) == 3]
        out = []
        # in batches: the observed states of a batch are folded into the set of distinct states before the next one runs
        # (all schedules of the thorough tier at once took 9 GB)
        for b0 in range(0, len(scheds), 3000):
          batch = tt.pmap(opdrivers.run_one_schedule, [(scen, s, chk.seed) for s in scheds[b0:b0 + 3000]])
          nsched += len(batch)
          for o in batch:
            out.append({'events': o['events'], 'preempts': o['preempts'], 'trace': o['trace'] if len(out) < 3 else None})
            chk.traces += 1
            chk.evaluations += o['nsteps']
            if o['hung']:
                chk.violation('sched:%s:hung' % scen, 'process(es) %s did not finish under schedule %s' % (o['hung'], o['preempts']),
                              {'kind': 'schedule', 'scen': scen, 'preempts': o['preempts']})
            for ob in o['obs']:
                k = opdrivers.state_key([ob['state'], ob.get('done'), ob.get('res')])
                if k in seen:
                    continue
                seen.add(k)
                chk.nontrivial.add(k)
                items.append({'scen': scen, 'preempts': o['preempts'], 'k': ob.get('k'), 'final': bool(ob.get('final')),
                              'obs': ob, 'exit': ob.get('exit'), 'stderr': ob.get('stderr')})
        # design conformance: the recorded operation traces must be behaviours of PutOps.tla (PutOpsTrace)
        kinds, kw = opdrivers.PUT_SCENARIOS[scen]
        if kw.get('fallback'):
            continue          # the trace vocabulary covers the rename path only; the copy path is judged by its states
        uniq = {}
        for o in out:
            uniq.setdefault(json.dumps(o['events']), o)
        tr = [json.loads(k) for k in uniq]
        ab = lambda s_: s_ if isinstance(s_, str) else 'n' if s_ == b'n' else 'n' + s_.decode()[2:]
        vr, acc = opspec.validate_put_traces(
            tr, ['p%d' % (i + 1) for i in range(len(kinds))],
            [('t1', ab(s_)) for t_, s_ in kw.get('pre_info', [])], [('t1', ab(s_)) for t_, s_, k_ in kw.get('pre_pay', [])],
            bool(kw.get('tdir_exists') or kw.get('pre_info') or kw.get('pre_pay')),   # pre-existing entries imply the directories
            toolong=('n',) if len(kw.get('base', b'n')) > 245 else ())
        chk.add_tlc('PutOpsTrace:' + scen, vr, constants='traces=%d' % len(tr))
        if vr.ok:
            rej = [list(uniq.values())[i] for i in range(len(tr)) if (i + 1) not in acc]
            chk.stage_stats.setdefault('design-conformance', {})[scen] = {'distinct_traces': len(tr), 'accepted': len(acc)}
            for o in rej[:3]:
                # drift is not a violation by itself: the invariants on the observed states decide the property
                print('DRIFT property=C04 scenario=%s schedule=%s: the recorded trace is not a behaviour of PutOps.tla '
                      '(operations: %s)' % (scen, o['preempts'], [e['k'] for e in o['events'] if e['k'].startswith('other')] or 'order/result'))
            if rej:
                chk.notes.append('DRIFT: %d of %d distinct traces of %s rejected by PutOpsTrace' % (len(rej), len(tr), scen))
        if len(chk.samples) < 3:
            chk.sample({'scenario': scen, 'schedule (pre-emptions: step -> process)': out[0]['preempts'],
                        'operations': (out[0]['trace'] or [])[:60], 'verdict': 'all observed states satisfy the invariants'})
    chk.stage_stats['schedules'] = {'schedules': nsched, 'distinct_states': len(items)}
    opcommon.judge(chk, 'sched', items, lambda it: it['obs'], lambda it: it['scen'],
                   lambda it: ALL + (['FinalStateIsC01', 'AllSucceed'] if it['final'] else []),
                   what_of=lambda it: 'scenario %s, pre-emptions %s, after step %s: %s %s' % (
                       it['scen'], it['preempts'], it['k'], it['obs']['state'], it.get('stderr') or ''))
    for n in ([130] if quick else [130, 180, 260]):
        r = opdrivers.run_many((n, chk.seed))
        chk.traces += n
        chk.count('sequential', n, key='many%d' % n, nontrivial=True)
        if r['problems']:
            chk.violation('sequential:%d' % n, '; '.join(r['problems'])[:1200], {'kind': 'many', 'n': n})
        if r['random_suffixes'] == 0:
            chk.machinery.append('sequential: no put reached the random-suffix region')
        chk.stage_stats['sequential-%d' % n] = r


def replay(path):
    print('re-run ./check C04: schedules are deterministic given the seed')
    return 2

"""C05 - killing trash-put at any instant loses nothing and leaves no orphan payload."""
from harness import opdrivers, tt
from harness.checks import opcommon


def run(chk):
    quick = chk.tier == 'quick'
    chk.rule = ('(1) TLC: InfoBeforePayload and NothingLost are invariants of EVERY reachable state of spec/PutOps.tla (so '
                'of every crash point), with one-shot faults, several candidates and the copy + delete move of the home '
                'fallback. (2) the REAL trash-put is killed (process exit) immediately before operation k for every k of '
                'the uninterrupted run and after the last one, for each scenario (file / directory tree / link / empty '
                'file; first use of a trash directory, existing directory, collisions with orphans and strays, volume '
                'trash directory, home fallback across volumes with its per-file copy and delete steps, names too long for their '
                '.trashinfo, and two or three arguments in one invocation); the projected '
                'on-disk state after the kill is judged by TLC (FsTrace): payload present => info present, complete and '
                'parseable; entry complete at its place or complete under files/. (4) each uninterrupted run, every operation observed, is validated as a behaviour of PutOps.tla (PutStateTrace, copy path '
                'included). (3) the same for a kill by interrupt: '
                'KeyboardInterrupt (Ctrl-C) raised immediately before operation k, and on the return of operation k (where '
                'Python delivers a signal that arrived during the system call), so that exception handlers and finally '
                'blocks run before the process ends; the same with a real SIGTERM (SIGHUP in the thorough tier), so that a handler '
                'the program installs runs. distinct = (scenario, kind of kill, k)')
    chk.assumptions += opcommon.ASSUME
    opcommon.model_runs(chk, [
        ('crash_plain', dict(procs=('p1',), cands=('t1',), slots=('n', 'n1'), prepay=[('t1', 'n')])),
        ('crash_faults', dict(procs=('p1',), cands=('t1', 't2'), max_faults=1, dirs_exist=('t1',))),
        ('crash_copy', dict(procs=('p1',), cands=('t1', 't2'), max_faults=1, copy_cands=('t2',))),
        ('crash_two', dict(procs=('p1', 'p2'), slots=('n', 'n1'))),
    ])
    items = []
    for scen in list(opdrivers.SINGLE_SCENARIOS) + list(opdrivers.MULTI_SCENARIOS):
        n, ops, ex = opdrivers.baseline_ops(scen, chk.seed)
        if ex != 0:
            chk.notes.append('the uninterrupted run of %s exits %s' % (scen, ex))
        modes = ('kill', 'intr', 'intr_after', 'term', 'term_after') + (('hup',) if not quick else ())
        out = tt.pmap(opdrivers.run_crash, [(scen, k, chk.seed, mode) for mode in modes for k in range(1, n + 2)])
        for o in out:
            chk.traces += 1
            chk.count('crash' if o['mode'] == 'kill' else 'interrupt', 1, key='%s|%s|%d' % (scen, o['mode'], o['k']), nontrivial=True)
            items.append(o)
        for mode in modes:
            if sum(1 for o in out if o['killed'] and o['mode'] == mode) < n:
                chk.machinery.append('%s: only %d of %d %s points were reached' % (
                    scen, sum(1 for o in out if o['killed'] and o['mode'] == mode), n, mode))
        chk.sample({'scenario': scen, 'operations of the uninterrupted run': ops[:50], 'kill points': n + 1,
                    'verdict': 'every post-kill state satisfies InfoBeforePayload and NothingLost'}, limit=4)
    opcommon.judge(chk, 'crash', items, lambda it: it['obs'], lambda it: '%s%s:%s' % (it['scen'], '' if it['mode'] == 'kill' else ':' + it['mode'], (it['at'][0] or 'end')),
                   lambda it: ['InfoBeforePayload', 'NothingLost', 'NoOverwrite', 'UniqueOwnership'],
                   what_of=lambda it: 'scenario %s %s operation %s (%s): %s' % (it['scen'], {'kill': 'killed before', 'intr': 'interrupted (Ctrl-C) before', 'intr_after': 'interrupted (Ctrl-C) on return of', 'term': 'sent SIGTERM before', 'term_after': 'sent SIGTERM on return of', 'hup': 'sent SIGHUP before'}[it['mode']], it['k'], it['at'], it['obs']['state']))
    # design conformance, copy path included: the distinct on-disk states of each uninterrupted run (every operation a
    # lock-step point) form a behaviour of PutOps.tla (PutStateTrace).  A rejection is reported as DRIFT, not as a violation:
    # the property itself is decided program-free by the invariants on the post-kill states above.
    from harness import opspec
    trs = tt.pmap(opdrivers.put_state_trace, [(scen, chk.seed) for scen in opdrivers.SINGLE_SCENARIOS])
    acc_n = 0
    for t in trs:
        c = t['consts']
        vr, acc = opspec.validate_put_state_traces([t['states']], c['procs'], preinfo=[tuple(x) for x in c['preinfo']],
                                                   prepay=[tuple(x) for x in c['prepay']], dirs_exist=c['dirs_exist'],
                                                   copy_cands=c['copy_cands'], toolong=c['toolong'], file_procs=c['file_procs'],
                                                   link_procs=c['link_procs'], extra_slots=c['extra_slots'])
        chk.add_tlc('PutStateTrace:' + t['scen'], vr, constants='states=%d operations=%d' % (len(t['states']), t['nops']))
        chk.traces += 1
        chk.count('design-conformance', 1, key=t['scen'], nontrivial=True)
        if vr.ok and 1 in acc:
            acc_n += 1
        elif vr.ok:
            print('DRIFT property=C05 scenario=%s: the sequence of on-disk states of the uninterrupted run is not a behaviour of '
                  'PutOps.tla' % t['scen'])
            chk.notes.append('DRIFT: state sequence of %s rejected by PutStateTrace' % t['scen'])
    chk.stage_stats.setdefault('design-conformance', {}).update({'scenarios': len(trs), 'accepted': acc_n})
    chk.exhaustive = True


def replay(path):
    print('re-run ./check C05: crash points are enumerated exhaustively')
    return 2

"""C11 - purging touches nothing outside the trash directories and follows no symlink."""
from harness import stages
from harness.checks import common


def frame_judge(g, res):
    """every successful mutating operation of trash-empty / trash-rm is inside files/ or info/ of a trash directory"""
    out = []
    for op, raw, r, cls in res.get('mut') or []:
        if r == 'ok' and any(c != 'trash' for c in cls):
            out.append('outside: mutating operation %s on %r (%s)' % (op, raw, cls))
    return out[:3]


def run(chk):
    chk.rule = ('TLC enumerates trash-empty and trash-rm transitions over trashes whose payloads are (by object id) files, '
                'directory trees containing links to files / directories outside the trash and dangling links, links '
                '(absolute, relative, to another link, across volumes) and dangling links, orphans included, in the home '
                'trash (in 30% of the cases reached through a symlinked $XDG_DATA_HOME), a volume trash and a --trash-dir; '
                'PurgeFrame is checked on the specification; on the real run the projection requires everything '
                'outside files/ and info/ to be byte-identical and the operation trace must contain no successful '
                'mutating operation outside them. non-trivial = something was purged')
    chk.assumptions += common.ASSUME
    common.mc(chk, properties=['PurgeFrame'])
    opts = lambda g, seed: {'shim': {'trace': True, 'trace_reads': False}}
    common.gen_tt(chk, 'empty-frame', 'Init_Dates', 'Next_EmptyDays', 10, 2500, opts_fn=opts, judge=frame_judge,
                  strat=lambda g: (g['lab']['opts']['days'], g['lab']['opts']['td'], bool(g['pre']['orph']),
                                   bool(g['pre']['strays'])), per_stratum=60, thorough_seeds=1)
    common.gen_tt(chk, 'rm-frame', 'Init_Many', 'Next_Rm', 6, None, opts_fn=opts, judge=frame_judge, thorough_seeds=3)
    common.gen_tt(chk, 'junk-frame', 'Init_Junk', 'Next_Junk', 9, 1200, judge=frame_judge,
                  opts_fn=lambda g, seed: {'shim': {'trace': True, 'trace_reads': False}} if g['lab']['cmd'] in ('empty', 'rm') else {},
                  strat=lambda g: (g['lab']['cmd'], len(g['pre']['junk'])), per_stratum=100, thorough_seeds=2)


def replay(path):
    return stages.replay_case(path)

"""Shared pieces of the operation-level checks (spec/PutOps.tla, FsTrace.tla; harness/oplevel, opdrivers)."""
from __future__ import annotations

import json
import random

from harness import opdrivers, opspec, tt

ASSUME = ['operations are observed at the os-module boundary of CPython (harness/shim.py): every path-based call plus '
          'os.open/write/close/sendfile; "killed at any instant" = process exit before any one of these operations',
          'virtual mount table; tmpfs; runs as root, so permission failures exist only as injected errnos',
          'durability across power loss (fsync) is not modelled']


def model_runs(chk, runs):
    """runs: list of (name, kwargs for opspec.run_putops)"""
    for name, kw in runs:
        res = opspec.run_putops(name, **kw)
        chk.add_tlc('PutOps:' + name, res, constants=json.dumps({k: v for k, v in kw.items()}, default=str)[:300])


def judge(chk, stage, items, obs_of, key_of, required, what_of=None):
    """items: executions; obs_of(item) -> observation dict; TLC (FsTrace) evaluates the PutOps invariants on every
    observation; `required(item)` lists the invariants that must hold for it."""
    obs = [obs_of(i) for i in items]
    if not obs:
        chk.machinery.append('%s: nothing to judge' % stage)
        return {}
    res, verdicts = opspec.judge_states(obs)
    chk.add_tlc('FsTrace:' + stage, res, constants='observed states=%d' % len(obs))
    if not res.ok:
        return {}
    if len(verdicts) != len(obs):
        chk.machinery.append('%s: TLC judged %d of %d observed states' % (stage, len(verdicts), len(obs)))
    for i, it in enumerate(items):
        v = verdicts.get(i + 1)
        if v is None:
            continue
        failing = [k for k in required(it) if not v[k]]
        if any(n.startswith('mode:') for n in obs[i]['state'].get('notes', [])):
            failing.append('PrivateDirs')
        if failing:
            chk.violation('%s:%s:%s' % (stage, key_of(it), '+'.join(failing)),
                          'invariant(s) %s of PutOps.tla are false in an observed state: %s' % (
                              ', '.join(failing), (what_of(it) if what_of else json.dumps(obs[i]['state']))[:1200]),
                          {'kind': 'opstate', 'stage': stage, 'item': it_slim(it), 'state': obs[i]['state']})
    return verdicts


def it_slim(it):
    d = {k: v for k, v in it.items() if k not in ('obs', 'trace')}
    return d

"""C12 - trash-rm removes exactly the entries whose original name matches the pattern."""
from harness import stages
from harness.checks import common


def run(chk):
    chk.rule = ('TLC enumerates trash-rm transitions (patterns by base name, by full path, match-all, match-none) over '
                'trashes holding the same base name in different directories and volumes, in home and volume trash '
                'directories, with infos without payload; the concrete pattern is a glob-escaped literal / glob and '
                'the names come from a pool with glob metacharacters, case variants and prefix siblings; '
                'non-trivial = something was removed; all generated cases are executed. Pattern stage: random patterns (literals, *, ?, [set], [!set], ranges, unclosed [, leading /) against name sets with case variants, metacharacters in names, multi-byte characters, equal base names in different directories and volumes; the set removed by the real trash-rm is judged by TLC evaluating Match (Glob.tla) on the same code points')
    chk.assumptions += common.ASSUME
    common.mc(chk, properties=['PurgeFrame'])
    common.gen_tt(chk, 'rm', 'Init_Many', 'Next_Rm', 6, None, thorough_seeds=6)
    # the pattern is matched against the RECORDED original name, whatever lives at that location now (a symbolic link to
    # something with another name)
    common.gen_tt(chk, 'rm-location-retaken', 'Init_ManyOcc', 'Next_Rm', 8, None, thorough_seeds=3)
    # "exactly the matching entries" also when the trash holds entries that cannot be read (no Path, unreadable, not an
    # info file), in any directory order: the malformed neighbours must not hide matching entries listed after them
    groups = [g for g in stages.generate(chk, 'rm-among-malformed', 'Init_Junk', 'Next_Junk', dict(common.C, MaxObj=9, GenLevel=1))
              if g['lab']['cmd'] == 'rm']
    stages.transition_tests(chk, 'rm-among-malformed', groups, sample=None, seeds_per_group=2 if chk.tier == 'quick' else 8,
                            opts_fn=lambda g, seed: {'shim': {'permute': True}})
    common.fun_laws(chk)
    common.fun_stage(chk, 'patterns', 'rm', 150 if chk.tier == 'quick' else 4000)
    chk.exhaustive = True


def replay(path):
    return stages.replay_case(path)

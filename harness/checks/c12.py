"""C12 - trash-rm removes exactly the entries whose original name matches the pattern."""
from harness import stages
from harness.checks import common


def run(chk):
    chk.rule = ('TLC enumerates trash-rm transitions (patterns by base name, by full path, match-all, match-none) over '
                'trashes holding the same base name in different directories and volumes, in home and volume trash '
                'directories, with infos without payload; the concrete pattern is a glob-escaped literal / glob and '
                'the names come from a pool with glob metacharacters, case variants and prefix siblings; '
                'non-trivial = something was removed; all generated cases are executed. Pattern stage: random patterns (literals, *, ?, [set], [!set], ranges, unclosed [, leading /) against name sets with case variants, metacharacters in names, multi-byte characters, equal base names in different directories and volumes; the set removed by the real trash-rm is judged by TLC evaluating Match (Glob.tla) on the same code points. Stage rm-faults: an errno instead of each unlink / rmdir of a payload by trash-rm (a payload that cannot be removed): TLC (PurgeTrace) evaluates InfoLast on the state left (payload and info go together: an entry is never torn apart)')
    chk.assumptions += common.ASSUME
    common.mc(chk, properties=['PurgeFrame'])
    common.gen_tt(chk, 'rm', 'Init_Many', 'Next_Rm', 6, None, thorough_seeds=6)
    # the pattern is matched against the RECORDED original name, whatever lives at that location now (a symbolic link to
    # something with another name)
    common.gen_tt(chk, 'rm-location-retaken', 'Init_ManyOcc', 'Next_Rm', 8, None, thorough_seeds=3)
    # "exactly the matching entries" also when the trash holds entries that cannot be read (no Path, unreadable, not an
    # info file), in any directory order: the malformed neighbours must not hide matching entries listed after them
    groups = [g for g in stages.generate(chk, 'rm-among-malformed', 'Init_Junk', 'Next_Junk', dict(common.C, MaxObj=9, GenLevel=1))
              if g['lab']['cmd'] == 'rm']
    stages.transition_tests(chk, 'rm-among-malformed', groups, sample=None, seeds_per_group=2 if chk.tier == 'quick' else 8,
                            opts_fn=lambda g, seed: {'shim': {'permute': True}})
    rm_faults(chk)
    common.fun_laws(chk)
    common.fun_stage(chk, 'patterns', 'rm', 150 if chk.tier == 'quick' else 4000)
    chk.exhaustive = True


def rm_faults(chk):
    """payload and .trashinfo go TOGETHER also when the file system refuses an operation of trash-rm: errno e instead of the
    k-th operation, for every k; TLC (PurgeTrace) evaluates InfoLast (a payload that is still there - whole or partly removed -
    still has its info) and the frame on the state the run leaves"""
    from harness import opdrivers, opspec, tt
    errnos = ['EACCES', 'EPERM', 'EBUSY'] if chk.tier == 'quick' else ['EACCES', 'EPERM', 'EBUSY', 'EIO', 'EROFS']
    jobs = []
    for scen in ('rm-all', 'rm-one', 'rm-all@dirlink'):
        n, ops, ex, fin = opdrivers.purge_baseline(scen)
        # only "this part of the payload cannot be removed" (an immutable file, a read-only sub-directory ...): errors on the
        # probing operations are outside what C12 speaks about
        jobs += [(scen, k, e) for k in range(1, n + 1) for e in errnos
                 if ops[k - 1][0] in ('unlink', 'rmdir') and any(r and '/files/' in r for r in ops[k - 1][1])]
    out = tt.pmap(opdrivers.run_purge_fault, jobs)
    res, v = opspec.judge_purge([o['state'] for o in out])
    chk.add_tlc('PurgeTrace:rm-faults', res, constants='observed states=%d' % len(out))
    for i, o in enumerate(out):
        chk.traces += 1
        chk.count('rm-faults', 1, key='%s|%s|%s' % (o['scen'], o['k'], o['errno']), nontrivial=bool(o['injected']))
        if not o['outside_intact']:
            chk.violation('rm-faults:%s:outside-touched' % o['scen'], 'something outside files/ and info/ was modified (scenario %s, %s at operation %s)' % (
                o['scen'], o['errno'], o['k']), {'kind': 'purge', 'item': o})
        x = v.get(i + 1) if res.ok else None
        if x is not None:
            bad = [k for k in ('InfoLast', 'FrameOK') if k in x and not x[k]]
            if bad:
                op = (o['injected'] or [['?', []]])[0]
                chk.violation('rm-faults:%s:%s:%s' % (o['scen'], op[0], '+'.join(bad)),
                              '%s false after trash-rm met %s at operation %s %s: %s | exit %s %s' % (
                                  ', '.join(bad), o['errno'], o['k'], op, o['state'], o['exit'], o['stderr'][-200:]),
                              {'kind': 'purge', 'item': o})


def replay(path):
    return stages.replay_case(path)

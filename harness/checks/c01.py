"""C01 - trash-put conserves data: each argument ends fully trashed or untouched."""
from __future__ import annotations

from harness import stages

PUT_CONST = {'MaxObj': 6, 'MaxClock': 3, 'DayTicks': 3, 'MaxDepth': 1, 'GenLevel': 2}


def src_untouched_judge(g, res):
    """A failed argument has never been the source / target of a mutating operation; a trashed one is moved by
    rename (or, with both fallback switches, by a copy that ends with the removal of the source)."""
    out = []
    lab = g['allowed'][0]['lab']
    mut = res.get('mut')
    if mut is None:
        return out
    if all(oc != 'trashed' for oc in lab['ocs']):
        for op, raw, r, cls in mut:
            if r == 'ok' and any(c != 'trash' for c in cls):
                out.append('move: successful mutating operation %s on %r (%s) although no argument was trashed' % (op, raw, cls))
    else:
        fallback = lab['opts']['hf'] and lab['opts']['hfenv']
        for op, raw, r, cls in mut:
            if r == 'ok' and op != 'rename' and any(c.startswith('src:') for c in cls) and not fallback:
                out.append('move: %s on the source %r; a trashed entry must be moved by one rename' % (op, raw))
    return out[:3]


def run(chk):
    quick = chk.tier == 'quick'
    chk.rule = ('TLC enumerates (configuration, pre-state, trash-put instance) edges of spec/Trash.tla; each executed '
                'case is one edge x one concretisation (names, entry kinds/variants, spelling, uid, umask, clock); '
                'non-trivial = the command changed the state or had to fail; distinct by operation summary x state '
                'features x concrete names')
    chk.assumptions += ['virtual mount table (ismount / EXDEV / EBUSY emulated at the os boundary, kernel errno order)',
                        'tmpfs as the judge of POSIX semantics', "a symlink's own mtime is not compared",
                        'trailing-slash spellings only for directories and links to directories',
                        'a dot entry under -i with a negative answer may be refused or skipped (not generated)']
    stages.model_check(chk, 'MC_Trash', 'MC_Trash', stages.cfg_text(
        spec='Spec', constants={'MaxObj': 3, 'MaxClock': 2, 'DayTicks': 1, 'MaxDepth': 2},
        invariants=['TypeOK', 'Conservation'], properties=['PutVolumeOK', 'PutIndependence']))
    opts = lambda g, seed: {'shim': {'trace': True}}
    g1 = stages.generate(chk, 'Put1', 'Init_Put', 'Next_Put1', PUT_CONST)
    stages.transition_tests(chk, 'put1', g1, sample=2500 if quick else None, per_stratum=3,
                            strat=lambda g: (g['lab']['args'][0]['class'], str(g['allowed'][0]['lab']['ocs']),
                                             g['lab']['opts']['inter'], g['lab']['opts']['td'] != 'none',
                                             g['lab']['opts']['hf'] and g['lab']['opts']['hfenv'], g['cfg']['xdg'],
                                             g['cfg']['top']['V1'], len(g['cfg']['mounted'])),
                            opts_fn=opts, judge=src_untouched_judge, seeds_per_group=1 if quick else 2)
    g2 = stages.generate(chk, 'PutBusy', 'Init_PutBusy', 'Next_PutBusy', dict(PUT_CONST, MaxObj=8))
    stages.transition_tests(chk, 'putbusy', g2, sample=1200 if quick else None, per_stratum=3, opts_fn=opts,
                            judge=src_untouched_judge, seeds_per_group=1 if quick else 3)
    chk.exhaustive = not quick


def replay(path):
    return stages.replay_case(path)

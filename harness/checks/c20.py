"""C20 - all commands read a trash directory the same way (and the way the spec says)."""
from harness import stages
from harness.checks import common


def run(chk):
    quick = chk.tier == 'quick'
    chk.rule = ('foreign .trashinfo contents are generated from line templates (absolute / relative Path, percent-escapes of '
                'any byte in either hex case, reserved characters left unescaped, duplicate Path / DeletionDate keys, extra '
                'keys and sections, missing header, lines in any order, invalid dates, CRLF and trailing blanks) and '
                'planted in the home trash (home on / or on its own volume), $topdir/.Trash/$uid, $topdir/.Trash-$uid and a '
                '--trash-dir; the four readers are observed: the path and date trash-list shows; the path and date '
                'trash-restore shows for the same entry; whether trash-rm with that exact path removes it and with a '
                'one-byte-different path does not; whether trash-empty DAYS keeps it at date + DAYS days and purges it '
                'one second later; stage foreign-restore: the single entry of a trash directory is really restored and the place '
                'where its payload lands is compared with Meaning (Path values with trailing slashes included). TLC (FunTrace) checks every observation against Meaning / Expired / RmMatches of '
                'spec/TrashInfo.tla, Dates.tla, Glob.tla. For CRLF / trailing blanks only the four-way agreement is '
                'required. distinct by observation class x content')
    chk.assumptions += common.ASSUME
    common.fun_laws(chk)
    common.fun_stage(chk, 'foreign', 'foreign', 120 if quick else 1500)
    common.fun_stage(chk, 'foreign-restore', 'frestore', 40 if quick else 500)
    common.fun_stage(chk, 'foreign-home-own-volume', 'foreign', 60 if quick else 700, {'home_own_volume': True})


def replay(path):
    return stages.replay_case(path)

"""Shared pieces of the command-level checks (spec/Trash.tla + Gen_Trash / Sim_Trash)."""
from __future__ import annotations

import json
import random

from harness import stages, tlc, tt, world

ASSUME = ['virtual mount table (ismount / EXDEV / EBUSY emulated at the os boundary, kernel errno order)',
          'tmpfs as the judge of POSIX semantics; CPython 3.12 from /venv; runs as root',
          "a symlink's own mtime is not compared",
          'outputs are parsed layout-tolerantly (a record ends with the path; dates by their 14 digits)']
C = {'MaxClock': 12, 'DayTicks': 3, 'MaxDepth': 1}


def mc(chk, invariants=(), properties=(), depth=2):
    return stages.model_check(chk, 'MC_Trash', 'MC_Trash', stages.cfg_text(
        spec='Spec', constants={'MaxObj': 3, 'MaxClock': 2, 'DayTicks': 1, 'MaxDepth': depth},
        invariants=['TypeOK', 'Conservation'] + list(invariants), properties=list(properties)))


def gen_tt(chk, stage, init, next_, maxobj, quick_sample, strat=None, opts_fn=None, judge=None, thorough_seeds=2,
           per_stratum=3, key_extra=None, thorough_sample=40000):
    quick = chk.tier == 'quick'
    groups = stages.generate(chk, stage, init, next_, dict(C, MaxObj=maxobj, GenLevel=1 if quick else 2))
    # thorough: everything generated, up to a cap that keeps memory and time bounded (stratified beyond it)
    return stages.transition_tests(chk, stage, groups, sample=quick_sample if quick else thorough_sample, per_stratum=per_stratum,
                                   strat=strat, opts_fn=opts_fn, judge=judge,
                                   seeds_per_group=1 if quick else thorough_seeds, key_extra=key_extra)


SIM_INIT = {'live': [{'r': 'R', 'd': 'd', 'n': 'a', 'o': 1}, {'r': 'V1', 'd': 'd', 'n': 'a', 'o': 2},
                     {'r': 'V1', 'd': 'de', 'n': 'b', 'o': 3}, {'r': 'R', 'd': 'top', 'n': 'b', 'o': 4}],
            'dirs': [{'r': r_, 'd': 'top'} for r_ in ['R', 'H', 'V1', 'V2']] +
                    [{'r': r_, 'd': d} for r_ in ['R', 'V1', 'V2'] for d in ['d', 'de']],
            'tex': [], 'items': [], 'orph': [], 'strays': [], 'junk': [], 'clock': 0, 'purged': []}


def behaviours(chk, stage, n_per_worker, depth, opts=None, validate=True):
    """TLC simulates histories of Trash.tla; the harness replays each with real commands only, comparing the
    projection (and trash-list's output) after every step; the observed steps are then judged by TLC (TrashTrace)."""
    text = ('INIT InitSim\nNEXT NextSimF\nCONSTANTS MaxObj = 9 MaxClock = 5 DayTicks = 3 Depth = %d\n'
            'INVARIANT AtEnd\nCHECK_DEADLOCK FALSE\n' % depth)
    res = tlc.run_tlc('Sim_Trash', cfg_text=text, workers=4, simulate=n_per_worker, depth=depth + 1,
                      seed=chk.seed + 1, timeout=1500)
    chk.add_tlc('sim:' + stage, res, constants='MaxObj=9 MaxClock=5 DayTicks=3 Depth=%d' % depth)
    if not res.ok:
        return
    if not res.emitted:
        chk.machinery.append('simulation %s produced no behaviour' % stage)
        return
    rnd = random.Random('%s|%s' % (stage, chk.seed))
    jobs = []
    for e in sorted(res.emitted, key=lambda e: json.dumps(e, sort_keys=True)):
        jobs.append(({'cfg': e['cfg'], 'init': e.get('init', SIM_INIT), 'hist': e['hist']}, rnd.randrange(1 << 30), opts or {}))
    results = tt.run_behaviours(jobs)
    steps = []
    owners = []
    for (beh, seed, o), r in zip(jobs, results):
        if r['status'] == 'machinery':
            chk.machinery.append('%s: %s' % (stage, '; '.join(r['diffs'])[:1500]))
            continue
        chk.traces += 1
        cmds = ','.join(s['lab']['cmd'] for s in beh['hist'])
        chk.count(stage, r['steps'], key=cmds + '|' + json.dumps(r.get('names'), sort_keys=True)[:60],
                  nontrivial=r['nontrivial'] > 0)
        if r['status'] == 'mismatch':
            lab = r.get('lab') or {}
            key = '%s:behaviour:%s:%s' % (stage, stages.op_summary({'lab': lab, 'run': r.get('run')}) if lab else '?',
                                          stages.diff_tags([d.split(': ', 1)[1] if ': ' in d else d for d in r['diffs']]))
            chk.violation(key, '; '.join(r['diffs'])[:1500],
                          {'kind': 'behaviour', 'stage': stage, 'behaviour': beh, 'seed': seed, 'opts': o,
                           'observed': {k: r.get(k) for k in ('failing_step', 'run', 'observed_state', 'names')}})
        elif len(chk.samples) < 5:
            chk.sample({'stage': stage, 'cfg': beh['cfg'], 'history': [s['lab'] for s in beh['hist']],
                        'names': r.get('names'), 'verdict': 'every step matched the specification'})
        for s in r.get('observed_steps', []):
            steps.append(s)
            owners.append((beh, seed))
    if validate and steps:
        vr, acc = tlc.validate_steps(steps)
        chk.add_tlc('validate:' + stage, vr, constants='MaxObj=12 MaxClock=12 DayTicks=3')
        if vr.ok:
            for i, s in enumerate(steps):
                if (i + 1) not in acc:
                    chk.violation('%s:observed-step-rejected:%s' % (stage, s['lab']['cmd']),
                                  'TLC (TrashTrace) rejects an observed step: no successor of the action for %s '
                                  'equals the observed state / outputs' % s['lab']['cmd'],
                                  {'kind': 'step', 'step': s})
            chk.stage_stats.setdefault(stage, {})['steps_judged_by_tlc'] = len(steps)
            chk.stage_stats[stage]['steps_accepted'] = len(acc)


# ---- function layer (spec/TrashInfo, Dates, Glob, Indexes; FunTrace) -----------------------------

def fun_laws(chk):
    """the laws of the function layer over small alphabets (MC_Fun.tla), checked exhaustively by TLC"""
    res = tlc.run_tlc('MC_Fun', workers=1, timeout=900)
    chk.add_tlc('MC_Fun', res, constants='alphabet of 16 bytes, strings to length 3; replies over 8 symbols to length 4')
    chk.notes.append('MC_Fun: one TLC state per law; each law quantifies over 4 369 byte strings / 4 681 replies x 4 list lengths / 1 365 names')


def obs_class(o):
    from harness import world
    f = o['f']
    if f == 'meaning':
        try:
            p, _ = world.parse_info(bytes(o['content']))
        except (ValueError, TypeError):
            p = None
        rel = 'relative' if (p is not None and not p.startswith(b'/')) or o.get('orig_rel') else 'absolute'
        return '%s:%s:%s:%s' % (f, o.get('reader'), o.get('kind', '-'), rel)
    if f == 'format':
        if o['content'] == [-1]:
            try:
                bytes(o['loc']).decode('utf-8')
                return 'format:not-written:utf8-name'
            except UnicodeDecodeError:
                return 'format:not-written:non-utf8-name'
        return 'format:malformed:' + ('relative' if o.get('relative') else 'absolute')
    if f == 'denote':
        return 'denote:' + ('rejected-by-tool' if o['restored'] == [-1] else 'accepted-by-tool')
    if f == 'restored':
        try:
            pp, _ = world.parse_info(bytes(o['content']))
        except (ValueError, TypeError):
            pp = None
        return 'restored:%s:%s%s' % (o.get('kind', '-'), 'none' if pp is None else 'trailing-slash' if pp.endswith(b'/') else 'plain',
                                     ':occupied-by-' + o.get('occupant', '?') if o.get('occupied') else '')
    if f == 'expired':
        return 'expired:' + ('purged' if o['purged'] else 'kept')
    if f == 'match':
        return 'match:' + ('removed' if o['removed'] else 'kept') + (':' + o['note'] if o.get('note') in ('exact-path pattern', 'collateral') else '')
    return f


def show_obs(o):
    d = dict(o)
    for k in ('content', 'loc', 'path', 'pat', 'reply', 'base', 'dir', 'landed'):
        if k in d and isinstance(d[k], list) and d[k] != [-1]:
            try:
                d[k] = bytes(d[k]).decode('utf-8', 'backslashreplace')
            except ValueError:
                d[k] = ''.join(chr(c) for c in d[k]).encode('utf-8', 'backslashreplace').decode()
    if 'paths' in d:
        d['paths'] = [''.join(chr(c) for c in p).encode('utf-8', 'backslashreplace').decode() for p in d['paths']]
    return d


def fun_stage(chk, stage, kind, nseeds, kw=None):
    """real commands run on generated data; TLC evaluates the TLA+ operators on the observed bytes (FunTrace)"""
    from harness import funobs
    base = chk.seed * 1000003
    out = funobs.collect(kind, [base + i for i in range(nseeds)], kw)
    obs = []
    for st, o in out:
        if st == 'error':
            chk.machinery.append('%s: %s' % (stage, o[-1500:]))
        else:
            obs += o
    if not obs:
        chk.machinery.append('%s: no observation collected' % stage)
        return
    broken = [o for o in obs if o.get('f') == 'broken' or o.get('broken')]
    for o in broken:
        chk.violation('%s:broken:%s' % (stage, o.get('note', '')[:40]), o.get('note', ''), {'kind': 'observation', 'obs': show_obs(o)})
    obs = [o for o in obs if not (o.get('f') == 'broken')]
    vr, acc = tlc.validate_steps(obs, module='FunTrace', init='InitF', next_='NextF', constants={}, workers=8)
    chk.add_tlc('funtrace:' + stage, vr, constants='observations=%d' % len(obs))
    if not vr.ok:
        return
    n_rej = 0
    for i, o in enumerate(obs):
        chk.traces += 1
        cls = obs_class(o)
        chk.count(stage, 1, key=cls + '|' + str(hash(str(o.get('content') or o.get('pat') or o.get('reply') or o.get('loc')))),
                  nontrivial=True)
        if (i + 1) not in acc:
            n_rej += 1
            chk.violation('%s:%s' % (stage, cls),
                          'TLC (FunTrace) rejects the observation %s' % str(show_obs(o))[:900],
                          {'kind': 'observation', 'stage': stage, 'obs': o, 'shown': show_obs(o)})
        elif len(chk.samples) < 6 and i % 97 == 0:
            chk.sample({'stage': stage, 'observation': show_obs(o), 'verdict': 'accepted by TLC (FunTrace)'})
    chk.stage_stats.setdefault(stage, {}).update({'observations': len(obs), 'rejected': n_rej})

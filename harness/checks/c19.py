"""C19 - a malformed trash entry never prevents the well-formed ones from being handled."""
from harness import stages
from harness.checks import common


def run(chk):
    chk.rule = ('TLC enumerates the four reading commands over seed states mixing well-formed entries with every subset '
                'of malformed neighbours (info without Path: empty, truncated, binary / not UTF-8, no Path key, a '
                'directory named *.trashinfo; non-.trashinfo files in info/; entries without DeletionDate; infos '
                'without payload; payloads without info); JunkIsolation is checked on the specification (the effect '
                'on entries equals the effect with the malformed ones removed); the real run must reach the '
                'specification state under a permuted directory order. non-trivial = state changed or output non-empty')
    chk.assumptions += common.ASSUME + ['directory order is permuted by the shim (listdir / scandir) under the case seed']
    stages.model_check(chk, 'MC_Junk', 'Gen_Trash', stages.cfg_text(
        init='Init_Junk', next_='Next_JunkMC', constants=dict(common.C, MaxObj=9, MaxDepth=2, GenLevel=1),
        invariants=['Conservation', 'JunkIsolation']))
    common.gen_tt(chk, 'junk', 'Init_Junk', 'Next_Junk', 9, 2500, opts_fn=lambda g, seed: {'shim': {'permute': True}},
                  strat=lambda g: (g['lab']['cmd'], json_small(g['lab']), len(g['pre']['junk']), bool(g['pre']['orph']),
                                   bool(g['pre']['strays']), any(i['date'] == -1 for i in g['pre']['items'])),
                  per_stratum=2, thorough_seeds=3)


def json_small(lab):
    return str({k: v for k, v in lab.items() if k in ('sort', 'pat', 'opts', 'reply', 'from')})


def replay(path):
    return stages.replay_case(path)

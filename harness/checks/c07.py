"""C07 - trash-put picks the trash directory the spec prescribes, on the file's own volume."""
from harness import stages
from harness.checks import common, c01


def one_rename_judge(g, res):
    out = c01.src_untouched_judge(g, res)
    lab = g['allowed'][0]['lab']
    mut = res.get('mut')
    if mut is None or lab['ocs'] != ['trashed']:
        return out
    fallback = lab['opts']['hf'] and lab['opts']['hfenv']
    renames = [m for m in mut if m[0] == 'rename' and m[2] == 'ok' and any(c.startswith('src:') for c in m[3])]
    if not fallback and len(renames) != 1:
        out.append('move: %d successful renames of the source, expected exactly one' % len(renames))
    if res.get('run', {}).get('stdin') and False:
        pass
    return out


def one_rename_many(g, res):
    """every trashed argument arrives by exactly one rename (no fallback switches in this stage)"""
    out = c01.src_untouched_judge(g, res)
    lab = g['allowed'][0]['lab']
    mut = res.get('mut')
    if mut is None:
        return out
    n = sum(1 for oc in lab['ocs'] if oc == 'trashed')
    renames = [m for m in mut if m[0] == 'rename' and m[2] == 'ok' and any(c.startswith('src:') for c in m[3])]
    if len(renames) != n:
        out.append('move: %d successful renames of sources for %d trashed arguments' % (len(renames), n))
    return out


def run(chk):
    quick = chk.tier == 'quick'
    chk.rule = ('TLC enumerates the configuration lattice of spec/Trash.tla (mount layouts x .Trash state x .Trash-$uid '
                'state x XDG_DATA_HOME set/unset/empty x HOME set/unset x file location x --trash-dir x both fallback '
                'switches) with one trash-put per edge; the real run must put the entry into the directory ChosenDir '
                'prescribes; created directories must be 0700 under umask 022/000/077; the payload must arrive by '
                'exactly one rename unless both fallback switches are on; stage populated-directories: trash directories that already exist and hold entries, orphans, strays (the choice does not depend on them); stage two-volumes: two arguments on different volumes in one invocation; stage td-through-link: --trash-dir spelled L/../name through a '
                'symlink on another volume (only where the entry went is judged there); non-trivial = trashed or had to fail')
    chk.assumptions += common.ASSUME
    common.mc(chk, properties=['PutVolumeOK'])
    opts = lambda g, seed: {'shim': {'trace': True}}
    g1 = stages.generate(chk, 'lattice', 'Init_Put', 'Next_Put1', {'MaxObj': 6, 'MaxClock': 3, 'DayTicks': 3, 'MaxDepth': 1, 'GenLevel': 1 if chk.tier == 'quick' else 2})
    stages.transition_tests(chk, 'lattice', g1, sample=3000 if quick else None, per_stratum=2,
                            strat=lambda g: (json_key(g['cfg']), g['lab']['args'][0].get('r'), g['lab']['opts']['td'],
                                             g['lab']['opts']['hf'], g['lab']['opts']['hfenv']),
                            opts_fn=opts, judge=one_rename_judge, seeds_per_group=1)
    # --trash-dir spelled 'L/../name' with L a symlink kept on ANOTHER volume: the file system designates the real directory;
    # a lexical reading designates a decoy on the other volume.  The gate must judge the real directory's volume.
    g2 = [g for g in g1 if g['lab']['opts']['td'] != 'none']
    stages.transition_tests(chk, 'td-through-link', g2, sample=600 if quick else 6000, per_stratum=1,
                            strat=lambda g: (json_key(g['cfg']), g['lab']['args'][0].get('r'), g['lab']['opts']['td'],
                                             g['lab']['opts']['hf'], g['lab']['opts']['hfenv']),
                            opts_fn=lambda g, seed: {'shim': {'trace': True}, 'td_spelling': 'linkdotdotx', 'gate_only': True},
                            judge=one_rename_judge, seeds_per_group=1)
    # the choice does not depend on what earlier commands left behind: trash directories that already exist and hold entries
    # ($topdir/.Trash-$uid populated from the time before $topdir/.Trash existed, .Trash/$uid still absent or empty ...)
    g3 = stages.generate(chk, 'PutBusy', 'Init_PutBusy', 'Next_PutBusy', {'MaxObj': 8, 'MaxClock': 3, 'DayTicks': 3, 'MaxDepth': 1, 'GenLevel': 1})
    stages.transition_tests(chk, 'populated-directories', g3, sample=900 if quick else None, per_stratum=2,
                            strat=lambda g: (json_key(g['cfg']), tuple(sorted(g['pre']['tex'])), g['lab']['args'][0].get('r'),
                                             bool(g['pre']['items'])),
                            opts_fn=opts, judge=one_rename_judge, seeds_per_group=1)
    # several arguments on DIFFERENT volumes in one invocation: each goes to the directory of its own volume (nothing decided
    # for one argument may be reused for the next)
    common.gen_tt(chk, 'two-volumes', 'Init_PutList', 'Next_Put2', 4, 700,
                  strat=lambda g: (tuple(a.get('r') for a in g['lab']['args']), tuple(g['cfg']['altfile']), g['cfg']['top']['V1'],
                                   g['lab']['opts']['force'], g['lab']['opts']['inter']), per_stratum=4,
                  opts_fn=opts, judge=one_rename_many)
    chk.exhaustive = not quick


def json_key(c):
    return (tuple(c['mounted']), c['top']['V1'], c['top']['R'], c['top']['V2'], tuple(c['altfile']), c['xdg'], c['home'])


def replay(path):
    return stages.replay_case(path)

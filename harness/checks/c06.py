"""C06 - trash-restore never clobbers an existing destination unless --overwrite is given."""
from harness import stages
from harness.checks import common


def run(chk):
    chk.rule = ('TLC enumerates restore transitions from seed states in which the destinations are free or occupied by '
                'a file, a directory, a link or a dangling link, for every kind of trashed entry, single and two-index '
                'replies in both orders, with and without --overwrite; stage clobber-no-payload: the selected entry is an info WITHOUT payload and its location is free or occupied: whatever lives there stays, --overwrite or not; non-trivial = something was restored or had '
                'to be refused; stage foreign-occupied: the entry comes from a foreign .trashinfo (Path percent-escaped in any way, '
                'relative or absolute, with trailing slashes) and its location is occupied; distinct by operation x occupant/entry kinds x concrete names')
    chk.assumptions += common.ASSUME + ['--overwrite onto an existing directory is left open by the property (label undef)']
    common.mc(chk)
    common.gen_tt(chk, 'clobber', 'Init_Clobber', 'Next_Clobber', 13, 2500,
                  strat=lambda g: (g['lab']['ow'], str(g['lab']['reply']['idx']), g['lab']['sort'],
                                   tuple(sorted((e['o'] for e in g['pre']['live']))),
                                   tuple(sorted(i['o'] for i in g['pre']['items']))), per_stratum=1)
    common.gen_tt(chk, 'clobber-no-payload', 'Init_ClobberStray', 'Next_Clobber', 13, None, thorough_seeds=3)
    common.gen_tt(chk, 'clobber-same-destination', 'Init_ClobberSame', 'Next_ClobberSame', 13, None, thorough_seeds=2)
    # entries written by other implementations (any spelling of the Path line, trailing slashes included) whose location is
    # occupied by a file, a link to a file, a dangling link or a directory: refused, nothing changes (TLC: FunTrace "restored")
    common.fun_stage(chk, 'foreign-occupied', 'frestore', 60 if chk.tier == 'quick' else 700, {'occupied': True})


def replay(path):
    return stages.replay_case(path)

"""C03 - every .trashinfo is spec-conformant and decodes back to the exact path and time."""
from harness import stages
from harness.checks import common

# paths over the alphabet of MC_Fun (a / % + space LF CR = [ # . 2 5 and the bytes C3 A9 FF), as relative tails
def alphabet_paths():
    import itertools
    sig = [b'a', b'/', b'%', b'+', b' ', b'\n', b'\r', b'=', b'[', b'#', b'.', b'2', b'5', b'\xc3', b'\xa9', b'\xff']
    out = []
    for n in (1, 2, 3):
        for t in itertools.product(sig, repeat=n):
            out.append(b''.join(t))
    return out


def run(chk):
    quick = chk.tier == 'quick'
    chk.rule = ('(1) TLC checks the codec laws of spec/TrashInfo.tla exhaustively over a 16-byte alphabet (Unescape(Escape(p)) = p, '
                'ParsePath/ParseDate(FormatInfo(p,d)) = (p,d), WellFormed). (2) real trash-put trashes entries whose '
                'locations are random byte strings (any byte 1-255 except /, names to 236 bytes, depth to 6, home and '
                '$topdir trash directories and a --trash-dir named directly or through a symlink from another volume, random and '
                'boundary clock values) and all paths over the same alphabet; '
                'TLC evaluates WellFormed on the bytes of each written .trashinfo (header, escaped Path that decodes to '
                'exactly the location - absolute, or relative without .. - and the date). (3) real trash-list, '
                'trash-restore and trash-rm read the same files back and TLC checks each shown path/date against '
                'Meaning of the bytes. (4) stage time-of-trashing: one trash-put with several arguments while the virtual clock advances with every operation: TLC checks that each DeletionDate lies in the window in which its own argument was handled. distinct by observation class x content')
    chk.assumptions += common.ASSUME
    common.fun_laws(chk)
    common.fun_stage(chk, 'random-names', 'putrb', 150 if quick else 2500)
    common.fun_stage(chk, 'utf8-names', 'putrb', 40 if quick else 400, {'utf8_only': True})
    # --trash-dir on another volume, named directly and through a symlink that lives on the root volume (the same spelling
    # for the writer and the readers): what is written must decode, for those readers, to the exact location
    # legal paths (about 1500 bytes) whose percent-encoded form is longer than PATH_MAX: written whole, read back whole
    common.fun_stage(chk, 'long-encoded-paths', 'putrb', 8 if quick else 80, {'n': 3, 'p_long': 1.0, 'utf8_only': True})
    # one run, several arguments, a clock that moves with every operation: each DeletionDate is the time of trashing of its
    # own entry (between the first operation on that argument and the one that took it away)
    common.fun_stage(chk, 'time-of-trashing', 'timed', 40 if quick else 600)
    common.fun_stage(chk, 'custom-dir', 'putrb', 25 if quick else 300, {'td': 'c'})
    common.fun_stage(chk, 'custom-dir-through-link', 'putrb', 25 if quick else 300, {'td': 'clink'})
    # a --trash-dir named like a volume trash directory (.Trash-$uid) below an ordinary directory of the volume
    common.fun_stage(chk, 'custom-dir-named-like-a-volume-trash', 'putrb', 15 if quick else 200, {'td': 'cvol'})
    ap = alphabet_paths()
    per = 16
    chunks = [ap[i:i + per] for i in range(0, len(ap), per)]
    if quick:
        chunks = chunks[::6]
    from harness import funobs, tlc
    base = chk.seed * 7919
    import itertools
    jobs = [(base + i, {'n': len(c), 'alphabet_paths': c}) for i, c in enumerate(chunks)]
    # run through the same collector with per-job keyword arguments
    from harness import tt
    out = tt.rmap(funobs._job, [('putrb', s, kw) for s, kw in jobs], 16, 1, timeout=600)
    obs = [x for st, o in out if st == 'ok' for x in o]
    for st, o in out:
        if st == 'error':
            chk.machinery.append('alphabet: ' + o[-800:])
    if obs:
        vr, acc = tlc.validate_steps(obs, module='FunTrace', init='InitF', next_='NextF', constants={}, workers=8)
        chk.add_tlc('funtrace:alphabet', vr, constants='observations=%d' % len(obs))
        for i, o in enumerate(obs):
            chk.traces += 1
            chk.count('alphabet', 1, key=str(o.get('loc')) + o['f'], nontrivial=True)
            if vr.ok and (i + 1) not in acc:
                chk.violation('alphabet:%s' % common.obs_class(o), 'TLC (FunTrace) rejects %s' % str(common.show_obs(o))[:900],
                              {'kind': 'observation', 'obs': o})
    chk.exhaustive = not quick


def replay(path):
    return stages.replay_case(path)

"""C09 - trash-list shows exactly what is in the trash after any history of commands."""
from harness import stages
from harness.checks import common


def run(chk):
    quick = chk.tier == 'quick'
    chk.rule = ('TLC simulates histories of the five commands (plus re-creation, removed parents, clock ticks) over 2-3 '
                'volumes; every step is executed by the real command; after EVERY step the projection of the sandbox '
                'must equal the behaviour state and real trash-list must print exactly the bag ListApply gives for that '
                'state (records, not lines: names contain newlines); observed steps are re-judged by TLC (TrashTrace). '
                'stage list-trash-dir: trash-list with one or several --trash-dir options over dated seed states; stage history-long-paths: the sandbox lies under 7 nested 242-byte non-ASCII directories. non-trivial = a step changed the state; distinct by command sequence x names')
    chk.assumptions += common.ASSUME
    common.mc(chk, invariants=['ListIsBag'])
    common.behaviours(chk, 'history', 75 if quick else 400, 10 if quick else 12)
    # --trash-dir given once or several times: exactly the entries of those directories
    common.gen_tt(chk, 'list-trash-dir', 'Init_Dates', 'Next_ListTd', 10, 400,
                  strat=lambda g: (g['lab']['td'], len(set(i['t'] for i in g['pre']['items'])), bool(g['pre']['strays'])), per_stratum=20)
    # the same with every path long and non-ASCII: the percent-encoded Path= line of a home-trash entry is about 5000 characters
    common.behaviours(chk, 'history-long-paths', 10 if quick else 150, 8 if quick else 12, opts={'conc': {'deep': True}})


def replay(path):
    return stages.replay_case(path)

"""C14 - no purge without consent: --dry-run and a negative answer change nothing."""
from harness import stages
from harness.checks import common


def run(chk):
    chk.rule = ('TLC enumerates trash-empty transitions with --dry-run and/or interactive consent (yes / no reply classes, '
                'each concretised from a pool of reply strings incl. empty and end of input) over dated seed states (one of the '
                'trash directories possibly an empty skeleton), '
                'DAYS and --trash-dir; the dry run must leave the projection unchanged and print exactly the set '
                'EmptyApply removes without --dry-run (paths mapped back to trash slots); a negative answer must leave '
                'the projection unchanged; stage unprintable-names: the same under a strict UTF-8 stdout with names that are not valid UTF-8 (state only). non-trivial = printed something or had to refrain')
    chk.assumptions += common.ASSUME + ['the exit status after a negative answer is not constrained by the property']
    common.mc(chk, properties=['NoConsentNoChange'])
    common.gen_tt(chk, 'consent', 'Init_Dates', 'Next_EmptyConsent', 10, 3000,
                  strat=lambda g: (g['lab']['opts']['days'], g['lab']['opts']['td'], g['lab']['opts']['dry'],
                                   g['lab']['opts']['consent'], bool(g['pre']['orph']), bool(g['pre']['strays']),
                                   len(set(i['t'] for i in g['pre']['items']))),
                  per_stratum=12, thorough_seeds=1)
    # "a terminal on stdin": no -i on the command line, stdin is a pty, stdout is not
    common.gen_tt(chk, 'consent-tty', 'Init_Dates', 'Next_EmptyConsent', 10, 300 if chk.tier == 'quick' else 4000,
                  strat=lambda g: (g['lab']['opts']['consent'], g['lab']['opts']['dry']), per_stratum=40,
                  opts_fn=lambda g, seed: {'tty': g['lab']['opts']['consent'] != 'auto'})
    # a strict UTF-8 locale and names that are not valid UTF-8: printing such a name on stdout fails.  Whatever happens to the
    # output then, a dry run / a negative answer still changes nothing (only the state is judged in this stage)
    groups = [g for g in stages.generate(chk, 'unprintable-names', 'Init_Dates', 'Next_EmptyConsent', dict(common.C, MaxObj=10, GenLevel=1))
              if g['lab']['opts']['dry'] or g['lab']['opts']['consent'] == 'no']
    stages.transition_tests(chk, 'unprintable-names', groups, sample=250 if chk.tier == 'quick' else 3000, per_stratum=20,
                            strat=lambda g: (g['lab']['opts']['consent'], g['lab']['opts']['dry'], g['lab']['opts']['days']),
                            opts_fn=lambda g, seed: {'conc': {'nonutf8': True}, 'shim': {'stdio_strict': True}, 'state_only': True})


def replay(path):
    return stages.replay_case(path)

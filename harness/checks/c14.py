"""C14 - no purge without consent: --dry-run and a negative answer change nothing."""
from harness import stages
from harness.checks import common


def run(chk):
    chk.rule = ('TLC enumerates trash-empty transitions with --dry-run and/or interactive consent (yes / no reply classes, '
                'each concretised from a pool of reply strings incl. empty and end of input) over dated seed states (one of the '
                'trash directories possibly an empty skeleton), '
                'DAYS and --trash-dir; the dry run must leave the projection unchanged and print exactly the set '
                'EmptyApply removes without --dry-run (paths mapped back to trash slots); a negative answer must leave '
                'the projection unchanged. non-trivial = printed something or had to refrain')
    chk.assumptions += common.ASSUME + ['the exit status after a negative answer is not constrained by the property']
    common.mc(chk, properties=['NoConsentNoChange'])
    common.gen_tt(chk, 'consent', 'Init_Dates', 'Next_EmptyConsent', 10, 3000,
                  strat=lambda g: (g['lab']['opts']['days'], g['lab']['opts']['td'], g['lab']['opts']['dry'],
                                   g['lab']['opts']['consent'], bool(g['pre']['orph']), bool(g['pre']['strays']),
                                   len(set(i['t'] for i in g['pre']['items']))),
                  per_stratum=12, thorough_seeds=1)
    # "a terminal on stdin": no -i on the command line, stdin is a pty, stdout is not
    common.gen_tt(chk, 'consent-tty', 'Init_Dates', 'Next_EmptyConsent', 10, 300 if chk.tier == 'quick' else 4000,
                  strat=lambda g: (g['lab']['opts']['consent'], g['lab']['opts']['dry']), per_stratum=40,
                  opts_fn=lambda g, seed: {'tty': g['lab']['opts']['consent'] != 'auto'})


def replay(path):
    return stages.replay_case(path)

"""C15 - killing restore, empty or rm at any instant never strands a payload without info."""
from harness import opdrivers, opspec, tt
from harness.checks import opcommon


def run(chk):
    chk.rule = ('(1) TLC checks spec/PurgeOps.tla for trash-empty, trash-rm and trash-restore (same-volume rename and '
                'cross-volume copy + delete, trees removed / copied in several steps, orphans swept by trash-empty): InfoLast '
                '(payload under files/, even partly removed, has its .trashinfo), RestoreNeverLoses (entry whole in the '
                'trash or whole at its destination), FrameOK, DoneOK in every reachable state including after up to two '
                'crashes with re-runs, RerunCompletes under weak fairness; Apalache proves the safety invariants from an inductive '
                'invariant (any number of steps). (2) the REAL commands are killed immediately '
                'before operation k, for every k (and after the last), over a trash with a file, a deep directory tree '
                'whose restore crosses volumes, a link (dangling, and in the @dirlink scenarios to an existing directory outside the trash, '
                'which must stay untouched) and a file on another volume, plus two orphans; trash-restore also with --overwrite onto '
                'occupied locations; TLC (PurgeTrace) '
                'evaluates InfoLast / RestoreNeverLoses / Frame on every post-kill on-disk state; then the command is run '
                'again (for a killed trash-restore: first trash-restore --overwrite entry by entry - nothing may get lost -, then trash-empty) and the final state must be the completed purge, with '
                'restored destinations intact. (3) lock-step runs: the on-disk state after every single operation of the '
                'uninterrupted command, under permuted directory listings, is validated by TLC as a behaviour of PurgeOps '
                '(PurgeOpsTrace). distinct = (scenario, k) and distinct state sequences')
    chk.assumptions += opcommon.ASSUME
    for name, kw in [('empty', dict(cmd='empty')), ('rm', dict(cmd='rm')),
                     ('restore_cross', dict(cmd='restore', crossvol=('e2',), selected=('e1', 'e2'))),
                     ('restore_same', dict(cmd='restore', selected=('e1', 'e2', 'e3'))),
                     ('restore_overwrite', dict(cmd='restore', selected=('e1', 'e2'), crossvol=('e2',), occupied=('e1', 'e2', 'e3')))]:
        res = opspec.run_purgeops(name, **kw)
        chk.add_tlc('PurgeOps:' + name, res, constants=str(kw))
    # unbounded in the number of steps: Apalache discharges an inductive invariant of PurgeOps (Init => IndInv,
    # IndInv /\ Next => IndInv', IndInv => InfoLast /\ RestoreNeverLoses /\ FrameOK); the design mutant must fail the step
    for cmd in (['restore'] if chk.tier == 'quick' else ['restore', 'empty', 'rm']):
        r = opspec.run_purgeops_inductive(cmd)
        chk.tlc_runs.append({'config': 'apalache:PurgeOpsInd:' + cmd, 'distinct_states': 0, 'states_generated': 0, 'depth': 1,
                             'wall_s': round(r['wall'], 2), 'ok': r['ok'], 'constants': 'inductive invariant, symbolic (Apalache 0.58)'})
        if r['failed_phase'] == 'tool':
            chk.machinery.append('apalache failed on PurgeOpsInd (%s): %s' % (cmd, r['detail'][-600:]))
        elif not r['ok']:
            chk.violation('apalache:PurgeOpsInd:%s:%s' % (cmd, r['failed_phase']),
                          'the inductive invariant of PurgeOps.tla fails (%s) for %s' % (r['failed_phase'], cmd), {'detail': r['detail']})
    if chk.tier != 'quick':
        r = opspec.run_purgeops_inductive('empty', mutant='infofirst')
        if r['ok'] or r['failed_phase'] == 'tool':
            chk.machinery.append('apalache accepts the infofirst design mutant (or failed to run): %s' % r['failed_phase'])
    items = []
    for scen in opdrivers.PURGE_SCENARIOS:
        n, ops, ex, fin = opdrivers.purge_baseline(scen)
        if ex != 0:
            chk.violation('kill:%s:uninterrupted-exit-%s' % (scen, ex), 'the uninterrupted run of %s exits %s' % (scen, ex),
                          {'kind': 'purge', 'scen': scen})
        out = tt.pmap(opdrivers.run_purge_crash, [(scen, k) for k in range(1, n + 2)])
        if sum(1 for o in out if o['killed']) < n:
            chk.machinery.append('%s: only %d of %d kill points reached' % (scen, sum(1 for o in out if o['killed']), n))
        for o in out:
            chk.traces += 2
            chk.count('kill', 1, key='%s|%d' % (scen, o['k']), nontrivial=True)
            items.append(o)
            if not o['outside_intact']:
                chk.violation('kill:%s:outside-touched' % scen,
                              'something outside files/ and info/ was modified by the purge: the directory a trashed symlink points '
                              'to, or a same-named entry of the current directory (scenario %s, kill before %s)' % (scen, o['k']),
                              {'kind': 'purge', 'item': o})
            if o['after_rerun'].get('dest_kept') is False:
                chk.violation('kill:%s:recovery-purge-touched-destination' % scen,
                              'the purge after a killed trash-restore changed a restored destination', {'kind': 'purge', 'item': o})
        chk.sample({'scenario': scen, 'operations of the uninterrupted run': ops[:40], 'kill points': n + 1,
                    'verdict': 'InfoLast / RestoreNeverLoses hold after every kill; the re-run completes'}, limit=4)
    obs = [o['after_kill'] for o in items] + [o['after_rerun'] for o in items]
    # a killed trash-restore retried with --overwrite (entry by entry): judged like any state of a restore in progress
    retried = [o for o in items if o.get('after_retry')]
    if retried:
        res_r, v_r = opspec.judge_purge([o['after_retry'] for o in retried])
        chk.add_tlc('PurgeTrace:retry', res_r, constants='observed states=%d' % len(retried))
        if res_r.ok:
            for i, x in v_r.items():
                it = retried[i - 1]
                bad = [k for k, val in x.items() if not val]
                if bad:
                    chk.violation('retry:%s:%s:%s' % (it['scen'], it['at'][0] or 'end', '+'.join(bad)),
                                  '%s false after a killed trash-restore was tried again with --overwrite: scenario %s, killed before '
                                  'operation %s %s: %s' % (', '.join(bad), it['scen'], it['k'], it['at'], it['after_retry']),
                                  {'kind': 'purge', 'item': it})
    res, v = opspec.judge_purge(obs)
    chk.add_tlc('PurgeTrace', res, constants='observed states=%d' % len(obs))
    if res.ok:
        n = len(items)
        if len(v) != len(obs):
            chk.machinery.append('TLC judged %d of %d observed states' % (len(v), len(obs)))
        for i, x in v.items():
            it = items[(i - 1) % n]
            phase = 'kill' if i <= n else 'rerun'
            bad = [k for k, val in x.items() if not val]
            if bad:
                chk.violation('%s:%s:%s:%s' % (phase, it['scen'], it['at'][0] or 'end', '+'.join(bad)),
                              '%s false after %s: scenario %s, killed before operation %s %s: %s' % (
                                  ', '.join(bad), phase, it['scen'], it['k'], it['at'], obs[i - 1]),
                              {'kind': 'purge', 'item': it})
    # (3) design conformance: the sequence of on-disk states after EVERY operation of an uninterrupted run is a behaviour of
    # PurgeOps (payload steps before the info, copy before delete), for several directory-listing orders
    seeds = [0, 1, 2] if chk.tier == 'quick' else list(range(12))
    seeds = [s + 7 * chk.seed for s in seeds]
    jobs = [(scen, s) for scen in opdrivers.PURGE_SCENARIOS for s in seeds]
    trs = tt.pmap(opdrivers.purge_state_trace, jobs)
    by = {}
    for t in trs:
        by.setdefault(t['scen'], []).append(t)
    for scen, ts in sorted(by.items()):
        cmd, argv, sel = opdrivers.PURGE_SCENARIOS[scen]
        uniq = []
        for t in ts:
            if t['exit'] != 0:
                chk.violation('design:%s:exit-%s' % (scen, t['exit']), 'the uninterrupted %s exits %s' % (scen, t['exit']),
                              {'kind': 'purge-trace', 'scen': scen})
            if t['states'] not in uniq:
                uniq.append(t['states'])
        res, acc = opspec.validate_purge_traces(uniq, cmd, sel, ['e2', 'e4'], occupied=opdrivers.OCCUPIED.get(scen, ()))
        chk.add_tlc('PurgeOpsTrace:' + scen, res, constants='state sequences=%d (of %d runs)' % (len(uniq), len(ts)))
        chk.traces += len(ts)
        for i, u in enumerate(uniq):
            chk.count('design-conformance', 1, key='%s|%s' % (scen, u), nontrivial=True)
            if res.ok and (i + 1) not in acc:
                chk.violation('design:%s:state-sequence-not-a-PurgeOps-behaviour' % scen,
                              'the on-disk states observed after each operation of %s are not a behaviour of PurgeOps '
                              '(a step removes the info before the payload is gone, deletes before the copy is whole, or '
                              'touches an entry that is not selected): %s' % (scen, u), {'kind': 'purge-trace', 'scen': scen, 'states': u})
    chk.exhaustive = True


def replay(path):
    print('re-run ./check C15: kill points are enumerated exhaustively')
    return 2

"""C18 - trash-put acts on the named entry itself and never follows a final symlink."""
import random

from harness import stages
from harness.checks import common, c07

SPELLINGS = ['abs', 'rel', 'dotrel', 'updown', 'viaparentlink', 'dblslash', 'linkdotdot', 'slash1', 'slash2', 'slash3', 'relslash']


def run(chk):
    quick = chk.tier == 'quick'
    chk.rule = ('TLC enumerates trash-put transitions whose argument is a symbolic link (to a file, to a directory, to '
                'another link, relative, across volumes) or a dangling link, on every layout, in the home trash and in '
                'volume trash directories, with and without the home fallback; each is run under every spelling '
                '(absolute, relative, ./, ../x/, through a symlinked parent, //, one to three trailing slashes for links '
                'to directories); the payload must be the link itself (same target string), the recorded location the '
                "link's own (parent resolved), the target and everything else unchanged, the move one rename; histories "
                'with restores (Sim_Trash) check that restoring recreates the same link. non-trivial = link trashed')
    chk.assumptions += common.ASSUME + ['trailing slashes are only applied to links whose target is a directory']
    common.mc(chk)
    groups = stages.generate(chk, 'links', 'Init_Links', 'Next_PutLink', dict(common.C, MaxObj=9, GenLevel=2))

    def opts(g, seed):
        return {'shim': {'trace': True}, 'spellings': [SPELLINGS[seed % len(SPELLINGS)]]}
    stages.transition_tests(chk, 'links', groups, sample=900 if quick else None, per_stratum=3,
                            strat=lambda g: (g['lab']['args'][0]['r'], g['lab']['args'][0]['d'], g['lab']['opts']['inter'],
                                             g['lab']['opts']['hf'], len(g['cfg']['mounted']), tuple(g['cfg']['altfile'])),
                            opts_fn=opts, judge=c07.one_rename_judge, seeds_per_group=5 if quick else 20)
    common.behaviours(chk, 'link-roundtrip', 40 if quick else 300, 8)


def replay(path):
    return stages.replay_case(path)

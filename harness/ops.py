"""Concretise an abstract operation label (spec/Trash.tla `out`) into a real
command line, run it through harness.runner, and parse what it printed back
into the label's vocabulary (layout tolerant: see DESIGN 4.1)."""
from __future__ import annotations

import json
import os
import random
import re

from harness import runner, world

PUT_ACCEPT = [b'y\n', b'Y\n', b'yes\n', b'yep sure\n', b'Yx\n']
PUT_DECLINE = [b'n\n', b'N\n', b'\n', b'x\n', b' y\n', b'no\n', b'0\n']
EMPTY_YES = [b'y\n', b'Y\n', b'yes\n', b'Yolo\n', b'y']
EMPTY_NO = [b'n\n', b'N\n', b'\n', b'x\n', b' y\n', b'', b'ny\n', b'1\n', b'\xc3\xa9\n']
INVALID_REPLIES = [b'x\n', b'9999\n', b'0-\n', b'-1\n', b'0,,1\n', b'1-0-2\n', b'a-b\n', b'0 1\n', b'0;1\n', b'0,x\n',
                   b'-\n', b',\n', b'0,\n', b'1e0\n', b'0x0\n', b'0-99999\n']


def glob_escape(b):
    out = bytearray()
    for c in b:
        if c in b'*?[':
            out += b'[' + bytes([c]) + b']'
        else:
            out.append(c)
    return bytes(out)


class OpRunner(object):
    def __init__(self, w, seed=0, shim_extra=None, timeout=20.0, td_spelling=None):
        self.w = w
        self.td_spelling = td_spelling
        self.rnd = random.Random('ops|%s' % seed)
        self.shim_extra = shim_extra or {}
        self.timeout = timeout
        self.last = None

    # ---- helpers ---------------------------------------------------------------
    def _run(self, script, argv, cwd, stdin=b'', env_extra=None, now_tick=None, tty=False, shim_kw=None):
        w = self.w
        env = w.env(env_extra, script=script)
        now = None
        if now_tick is not None:
            dt = w.conc.tick_to_dt(now_tick)
            now = (dt.year, dt.month, dt.day, dt.hour, dt.minute, dt.second)
        kw = dict(self.shim_extra)
        kw.update(shim_kw or {})
        os.umask(w.conc.umask)
        try:
            res = runner.run(script, argv, cwd, env, stdin=stdin, shim_cfg=w.shim_cfg(**kw), now=now,
                             timeout=self.timeout, tty=tty)
        finally:
            os.umask(0o022)
        res['argv'] = [a if isinstance(a, str) else a.decode('utf-8', 'backslashreplace') for a in argv]
        res['cwd'] = cwd
        self.last = res
        return res

    def neutral_cwd(self):
        return os.path.join(self.w.root, 'cwd')

    # ---- --trash-dir ----------------------------------------------------------------
    def _register(self, path):
        """a path the harness itself adds to the sandbox becomes part of the reference snapshot (it must stay as it is)"""
        w = self.w
        rootb = os.fsencode(w.root)
        pb = os.fsencode(path)
        for rel, e in world.snapshot(pb).items():
            full = pb if rel == b'.' else pb + b'/' + rel
            w.baseline[full[len(rootb) + 1:]] = e

    def td_arg_of(self, reg, **kw):
        """--trash-dir argument for the abstract value reg: a region (its custom trash directory, spelled) or 'top:V1' (the
        top directory of that volume itself)"""
        if reg.startswith('top:'):
            return self.w.rpath(reg[4:]) + self.rnd.choice(['', '/']), None, 'volume-top'
        return self.spell_td('c:' + reg, **kw)

    def spell_td(self, t, cwd_free=True, spelling=None):
        """-> (--trash-dir argument, cwd or None, spelling name).  All spellings designate the same directory for the
        file system; 'linkdotdot' designates ANOTHER, populated, trash directory for whoever collapses '..' lexically"""
        w = self.w
        if w.td_linked(t) and not spelling and not self.td_spelling:
            return w.td_arg(t), None, 'vialink'       # one spelling for every command of this world
        p = w.tpath(t)
        opts = ['abs', 'abs', 'abs', 'slash', 'dblslash', 'linkdotdot'] + (['rel', 'dotrel'] if cwd_free else [])
        sp = spelling or self.td_spelling or self.rnd.choice(opts)
        parent, name = os.path.split(p)
        if sp == 'slash':
            return p + '/', None, sp
        if sp == 'dblslash':
            return parent + '//' + name, None, sp
        if sp == 'rel' and os.path.isdir(parent):
            return name, parent, sp
        if sp == 'dotrel' and os.path.isdir(parent):
            return './' + name, parent, sp
        if sp in ('linkdotdot', 'linkdotdotx') and os.path.isdir(parent):
            # 'linkdotdot': the decoy lives on the volume of the real directory (a relative Path= means the same under both
            # readings); 'linkdotdotx' (only on request): the decoy lives on ANOTHER volume, so that a lexical reading also
            # gets the volume of the trash directory wrong - the same-volume gate of trash-put is what this one is for
            sub = os.path.join(parent, '.tdsub')
            if sp == 'linkdotdot':
                x = os.path.join(parent, '.tdx-%s' % t.replace(':', '-'))
            else:
                here = w.vol_of_region(world.treg(t))
                others = [r for r in w.cfg['mounted'] if r != here]
                if not others:
                    return p, None, 'abs'
                x = os.path.join(w.rpath(others[0]), '.tdx-%s' % t.replace(':', '-'))
            if not os.path.lexists(sub):
                os.mkdir(sub)
                self._register(sub)
            if not os.path.lexists(x):
                decoy = os.path.join(x, name)
                os.makedirs(os.path.join(decoy, 'files', 'decoy-dir'))
                os.makedirs(os.path.join(decoy, 'info'))
                with open(os.path.join(decoy, 'files', 'decoy-dir', 'content'), 'w') as f:
                    f.write('bystander')
                with open(os.path.join(decoy, 'info', 'decoy-dir.trashinfo'), 'wb') as f:
                    f.write(world.format_info(b'/bystander/decoy-dir', '1990-01-01T00:00:00'))
                os.symlink(sub, os.path.join(x, 'L'))
                self._register(x)
            return os.path.join(x, 'L', '..', name), None, sp
        return p, None, 'abs'

    # ---- put ----------------------------------------------------------------------
    def spell_entry(self, a, spelling=None, earlier=()):
        """-> (argument bytes, cwd, spelling name) for an entry argument.
        earlier: the entries named by earlier arguments of the same command"""
        w = self.w
        pb = w.lpath(a['r'], a['d'], a['n'])
        parent = os.path.dirname(pb)
        name = os.path.basename(pb)
        exists = os.path.lexists(pb)
        isdirlike = exists and os.path.isdir(pb)       # directory or link to directory
        if isdirlike and os.path.islink(pb):
            # 'link/' only designates the link while its target exists: not if an earlier argument trashes the target
            tgt = os.path.realpath(pb)
            if any(tgt == e or tgt.startswith(e + b'/') for e in earlier):
                isdirlike = False
        opts = ['abs', 'rel', 'dotrel', 'updown', 'viaparentlink', 'dblslash', 'linkdotdot']
        if not exists:
            opts += ['emptystring']
        if isdirlike:
            opts += ['slash1', 'slash2', 'slash3', 'relslash']
        if exists and os.path.isdir(pb) and not os.path.islink(pb):
            opts += ['selfupdown']      # 'd/../d': the parent is named through the entry itself (gone once the entry has moved)
        sp = spelling or self.rnd.choice(opts)
        if sp not in opts:
            sp = 'abs'          # a trailing-slash spelling was asked for something that is not directory-like
        if sp == 'abs':
            return pb, self.neutral_cwd(), sp
        if sp == 'emptystring':
            return b'', self.neutral_cwd(), sp       # designates nothing: like any other missing path
        if sp == 'rel':
            return name, os.fsdecode(parent), sp
        if sp == 'dotrel':
            return b'./' + name, os.fsdecode(parent), sp
        if sp == 'updown':
            return b'../' + os.path.basename(parent) + b'/' + name, os.fsdecode(parent), sp
        if sp == 'dblslash':
            return parent + b'//' + name, self.neutral_cwd(), sp
        if sp == 'selfupdown':
            return (pb + b'/../' + name) if self.rnd.random() < 0.5 else (name + b'/../' + name), \
                (self.neutral_cwd() if False else os.fsdecode(parent)), sp
        if sp == 'viaparentlink':
            ln = os.path.join(w.root, 'targets', 'pl-%s-%s' % (a['r'], a['d']))
            os.makedirs(os.path.dirname(ln), exist_ok=True)
            if not os.path.lexists(ln):
                os.symlink(os.fsdecode(parent), ln)
                w.baseline[os.fsencode(ln)[len(os.fsencode(w.root)) + 1:]] = world.snap_entry(os.fsencode(ln))
                w.baseline[b'targets'] = world.snap_entry(os.path.join(w.root, 'targets'))
            return os.fsencode(ln) + b'/' + name, self.neutral_cwd(), sp
        if sp == 'linkdotdot':
            # "L/../name" where L is a symlink (kept in ANOTHER directory) to a sub-directory of the entry's parent:
            # POSIX resolves L first, so the path designates parent/name; a lexical normalisation would designate
            # <directory of L>/name instead - which is another entry if one of that name exists there
            sub = parent + b'/.ldsub'
            if not os.path.lexists(sub):
                os.mkdir(sub)
                w.baseline[sub[len(os.fsencode(w.root)) + 1:]] = world.snap_entry(sub)
            other = None
            for r2 in world.REGIONS:
                for d2 in world.DIRS:
                    cand = w.lpath(r2, d2, a['n'])
                    if cand != pb and os.path.lexists(cand) and os.path.isdir(os.path.dirname(cand)):
                        other = os.path.dirname(cand)
            if other is None:
                other = os.fsencode(os.path.join(w.root, 'targets'))
                os.makedirs(other, exist_ok=True)
                w.baseline.setdefault(b'targets', world.snap_entry(other))
            ln = other + b'/.ld-%s-%s' % (a['r'].encode(), a['d'].encode())
            if not os.path.lexists(ln):
                os.symlink(sub, ln)
                w.baseline[ln[len(os.fsencode(w.root)) + 1:]] = world.snap_entry(ln)
            return ln + b'/../' + name, self.neutral_cwd(), sp
        if sp.startswith('slash'):
            return pb + b'/' * int(sp[5:]), self.neutral_cwd(), sp
        if sp == 'relslash':
            return name + b'/', os.fsdecode(parent), sp
        raise ValueError(sp)

    def spell_dot(self, a, spelling=None):
        w = self.w
        dp = w.dpath(a['r'], a['d'])
        opts = ['.', './', '..', '../', 'abs/.', 'abs/..', 'abs/./', 'abs/../', 'sub/..', './.']
        sp = spelling or self.rnd.choice(opts)
        sub = os.path.join(dp, 'e')
        if sp in ('.', './', './.'):
            return sp.encode(), dp, sp
        if sp in ('..', '../', 'sub/..'):
            # designate dp from inside a sub-directory of it
            made = False
            if not os.path.isdir(sub):
                return (b'.' if sp != 'sub/..' else b'./.'), dp, sp + '(nosub)'
            if sp == 'sub/..':
                return b'e/..', dp, sp
            return sp.encode(), sub, sp
        return os.fsencode(dp) + sp[3:].encode(), self.neutral_cwd(), sp

    def spell_mount(self, a, spelling=None):
        w = self.w
        mp = w.rpath(a['r'])
        sp = spelling or self.rnd.choice(['abs', 'slash1', 'rel'])
        if sp == 'abs':
            return os.fsencode(mp), self.neutral_cwd(), sp
        if sp == 'slash1':
            return os.fsencode(mp) + b'/', self.neutral_cwd(), sp
        return os.fsencode(os.path.basename(mp)), os.path.dirname(mp), sp

    def put(self, lab, state, spellings=None, verbose=None, shim_kw=None):
        w = self.w
        o = lab['opts']
        argv = []
        # the switches accepted for compatibility with GNU rm mean nothing; long forms mean what the short ones do
        r2 = random.Random('rmcompat|%s|%s' % (w.conc.variant_seed, json.dumps(lab.get('args'), sort_keys=True)))
        if r2.random() < 0.3:
            argv += r2.sample(['-d', '--directory', '-r', '-R', '--recursive', '-rd'], r2.choice([1, 1, 2]))
        if o['force']:
            if o['inter'] == 'off' and r2.random() < 0.25:
                argv.append('-i')       # -f given AFTER -i (an alias adds -i): -f is what was asked for
            argv.append(r2.choice(['-f', '-f', '--force']))
        if o['inter'] != 'off':
            argv.append(self.rnd.choice(['-i', '--interactive']))
        if o['td'] != 'none':
            argv += ['--trash-dir', self.spell_td('c:' + o['td'], cwd_free=False)[0]]
        if o['hf']:
            argv.append('--home-fallback')
        v = verbose if verbose is not None else self.rnd.choice([0, 0, 1, 2])
        argv += ['-v'] * v
        env = {}
        if o['hfenv']:
            env['TRASH_ENABLE_HOME_FALLBACK'] = '1'
        else:
            # only the value 1 switches the fallback on: 0 / no / false / empty / anything else leave it off
            r4 = random.Random('hfenv|%s|%s' % (w.conc.variant_seed, json.dumps(lab.get('args'), sort_keys=True)))
            v4 = r4.choice([None, None, '0', 'no', 'false', '', 'off', '11', 'yes'])
            if v4 is not None:
                env['TRASH_ENABLE_HOME_FALLBACK'] = v4
        args = []
        cwd = None
        stdin = b''
        spelled = []
        earlier = []
        for k, a in enumerate(lab['args']):
            want = spellings[k] if spellings else None
            if a['class'] == 'entry':
                s, c, sp = self.spell_entry(a, want, earlier=earlier)
                earlier.append(os.path.realpath(os.path.dirname(w.lpath(a['r'], a['d'], a['n']))) + b'/' +
                               os.path.basename(w.lpath(a['r'], a['d'], a['n'])))
            elif a['class'] == 'dot':
                s, c, sp = self.spell_dot(a, want)
            else:
                s, c, sp = self.spell_mount(a, want)
            if cwd is None:
                cwd = c
            elif c != cwd:
                # several arguments share one cwd: re-spell relative ones as absolute
                if a['class'] == 'entry':
                    s, c, sp = self.spell_entry(a, 'abs' if not sp.startswith('slash') else sp, earlier=earlier[:-1])
                elif a['class'] == 'dot':
                    s, c, sp = self.spell_dot(a, 'abs/.')
                else:
                    s, c, sp = self.spell_mount(a, 'abs')
            args.append(s)
            spelled.append(sp)
            if o['inter'] == 'accept':
                stdin += self.rnd.choice(PUT_ACCEPT)
            elif o['inter'] == 'decline':
                stdin += self.rnd.choice(PUT_DECLINE)
        if any(a.startswith(b'-') for a in args):
            argv.append('--')
        argv += args
        res = self._run('trash-put', argv, cwd or self.neutral_cwd(), stdin=stdin, env_extra=env,
                        now_tick=state['clock'], shim_kw=shim_kw)
        res['spelled'] = spelled
        res['argbytes'] = args
        obs = {'exit': runner.exit_class(res)}
        return obs, res

    # ---- output parsing ---------------------------------------------------------------
    def known_paths(self):
        w = self.w
        m = {}
        for r in world.REGIONS:
            for d in world.DIRS:
                for n in world.NAMES:
                    m[w.lpath(r, d, n)] = (r, d, n)
                    al = self.alias(w.lpath(r, d, n))
                    if al is not None:
                        m[al] = (r, d, n)
        return m

    def alias(self, pathb):
        """the same path below the volume m1 as TRASH_VOLUMES spells that volume (see World.tv_alias), or None"""
        ta = getattr(self.w, 'tv_alias', None)
        if not ta:
            return None
        a, b = os.fsencode(ta[0]), os.fsencode(ta[1])
        if pathb == a or pathb.startswith(a + b'/'):
            return b + pathb[len(a):]
        return None

    def parse_records(self, text):
        """split stdout into (prefix, loc|None, rawpath) records using the known location paths"""
        known = self.known_paths()
        recs = []
        pos = 0
        keys = sorted(known, key=len, reverse=True)
        while pos < len(text):
            best = None
            for p in keys:
                idx = text.find(p + b'\n', pos)
                # the path must be the end of its record
                while idx != -1:
                    if best is None or idx < best[0] or (idx == best[0] and len(p) > len(best[1])):
                        best = (idx, p)
                    break
            nl = text.find(b'\n', pos)
            if best is None:
                # unknown record(s): take line by line
                if nl == -1:
                    recs.append((text[pos:], None, None))
                    break
                recs.append((text[pos:nl], None, None))
                pos = nl + 1
                continue
            idx, p = best
            # lines wholly before the match that cannot be its prefix (they end with \n before idx) are separate records
            pre = text[pos:idx]
            while b'\n' in pre:
                k = pre.index(b'\n')
                recs.append((pre[:k], None, None))
                pre = pre[k + 1:]
            recs.append((pre, known[p], p))
            pos = idx + len(p) + 1
        return recs

    def date_of_prefix(self, prefix, strip_index=False):
        """-> tick | NODATE | None (unparseable)"""
        s = prefix
        idx = None
        if strip_index:
            m = re.match(rb'\s*(\d+)\s', s)
            if not m:
                return None, None
            idx = int(m.group(1))
            s = s[m.end():]
        digits = re.sub(rb'\D', b'', s)
        if len(digits) == 14:
            import datetime
            try:
                dt = datetime.datetime.strptime(digits.decode(), '%Y%m%d%H%M%S')
            except ValueError:
                return idx, None
            return idx, self.w.conc.dt_to_tick(dt)
        if len(digits) == 0:
            return idx, world.NODATE
        return idx, None

    # ---- list ------------------------------------------------------------------------------
    def list(self, lab, state, shim_kw=None):
        w = self.w
        argv = []
        cwd = self.neutral_cwd()
        if lab['td'] == 'all':
            argv.append('--all-users')
        elif lab['td'] != 'none':
            regs = lab['td'].split('+')
            for r_ in regs:
                tdarg, c, tdsp = self.td_arg_of(r_, cwd_free=(len(regs) == 1))
                cwd = c or cwd
                argv += ['--trash-dir', tdarg]
        res = self._run('trash-list', argv, cwd, shim_kw=shim_kw)
        lines = []
        bad = []
        for prefix, loc, raw in self.parse_records(res['stdout']):
            if loc is None:
                bad.append(prefix)
                continue
            _, tick = self.date_of_prefix(prefix)
            if tick is None:
                bad.append(prefix + b'|' + raw)
                continue
            lines.append({'date': tick, 'r': loc[0], 'd': loc[1], 'n': loc[2]})
        err = res['stderr']
        diag = []
        for t in w.tdirs():
            if world.tkind(t) in ('t1', 'o1'):
                # a report names the skipped directory ($topdir/.Trash/$uid) or its parent ($topdir/.Trash) as a whole path
                tps = [os.fsencode(w.tpath(t))] + ([self.alias(os.fsencode(w.tpath(t)))] if self.alias(os.fsencode(w.tpath(t))) else [])
                for p in tps + [os.path.dirname(x) for x in tps]:
                    if re.search(re.escape(p) + rb'(?![A-Za-z0-9_./-])', err):
                        diag.append(t)
                        break
        obs = {'exit': runner.exit_class(res), 'lines': lines, 'diag': diag, 'unparsed': bad}
        # the same listing with the size of the payload in place of the date (trash-list --size): one line per entry that has
        # a payload, at the same locations, whatever else lies in the directory
        r5 = random.Random('size|%s|%s' % (w.conc.variant_seed, lab['td']))
        if r5.random() < 0.3:
            res2 = self._run('trash-list', argv + ['--size'], cwd, shim_kw=shim_kw)
            locs = []
            for prefix, loc, raw in self.parse_records(res2['stdout']):
                if loc is not None:      # whatever stands for the size in front of it
                    locs.append({'r': loc[0], 'd': loc[1], 'n': loc[2]})
            obs['size'] = {'exit': runner.exit_class(res2), 'locs': locs, 'stderr': res2['stderr'][-300:].decode('utf-8', 'backslashreplace')}
        return obs, res

    def listdirs(self, lab, state, shim_kw=None):
        """trash-list --trash-dirs and trash-list --volumes"""
        w = self.w
        res = self._run('trash-list', ['--trash-dirs'] + (['--all-users'] if lab.get('all') else []), self.neutral_cwd(), shim_kw=shim_kw)
        by_path = {}
        for t in w.tdirs():
            by_path.setdefault(os.fsencode(w.tpath(t)), t)
            if self.alias(os.fsencode(w.tpath(t))):
                by_path.setdefault(self.alias(os.fsencode(w.tpath(t))), t)
        found, notsticky, symlink, bad = [], [], [], []
        for line in res['stdout'].split(b'\n'):
            if not line:
                continue
            kind, path = 'found', line
            for pre, k in ((b'parent_not_sticky: ', 'notsticky'), (b'parent_is_symlink: ', 'symlink')):
                if line.startswith(pre):
                    kind, path = k, line[len(pre):]
            t = by_path.get(path.rstrip(b'/'))
            if t is None and lab.get('all') and kind == 'found' and path in [
                    os.fsencode(os.path.join(d, '.local', 'share', 'Trash')) for n, u, d in w.pwall() if n not in ('u', 'o')]:
                continue      # users of the password database whose home directory does not exist: named, nothing there
            if t is None:
                bad.append(line[:200])
            else:
                {'found': found, 'notsticky': notsticky, 'symlink': symlink}[kind].append(t)
        res2 = self._run('trash-list', ['--volumes'], self.neutral_cwd(), shim_kw=shim_kw)
        vols = []
        by_vol = {os.fsencode(w.rpath(r)): r for r in world.REGIONS}
        if getattr(w, 'tv_alias', None):
            by_vol[os.fsencode(w.tv_alias[1])] = 'V1'
        for line in res2['stdout'].split(b'\n'):
            if line:
                r_ = by_vol.get(line.rstrip(b'/') or b'/')
                if r_ is None:
                    bad.append(b'volume ' + line[:200])
                else:
                    vols.append(r_)
        ex = runner.exit_class(res) if runner.exit_class(res) != 'ok' else runner.exit_class(res2)
        obs = {'exit': ex, 'found': found, 'notsticky': notsticky, 'symlink': symlink, 'volumes': vols, 'unparsed': bad}
        return obs, res

    # ---- restore ------------------------------------------------------------------------------
    def restore(self, lab, state, shim_kw=None):
        w = self.w
        f = lab['from']
        argv = []
        if lab['sort'] != 'date' or self.rnd.random() < 0.3:
            argv += ['--sort', lab['sort']] if self.rnd.random() < 0.5 else ['--sort=' + lab['sort']]
        if lab['ow']:
            argv.append('--overwrite')
        if lab['td'] != 'none':
            argv += ['--trash-dir', self.spell_td('c:' + lab['td'], cwd_free=False)[0]]
        cwd = self.neutral_cwd()
        if f['k'] == 'root':
            if self.rnd.random() < 0.5:
                argv.append('/')
            else:
                cwd = '/'
        else:
            p = w.dpath(f['r'], f['d']) if f['k'] == 'dir' else os.fsdecode(w.lpath(f['r'], f['d'], f['n']))
            if f['k'] == 'dir' and os.path.isdir(p) and self.rnd.random() < 0.5:
                cwd = p
            elif self.rnd.random() < 0.5 or not os.path.isdir(os.path.dirname(p)):
                # the directory asked for, spelled with trailing slashes / a trailing dot as well (same directory)
                r6 = random.Random('rspell|%s|%s' % (w.conc.variant_seed, p))
                tail = r6.choice(['', '', '/', '//', '/.']) if f['k'] == 'dir' and os.path.isdir(p) else ''
                argv += (['--'] if os.path.basename(p).startswith('-') else []) + [os.fsencode(p + tail)]
            else:
                cwd = os.path.dirname(p)
                b = os.fsencode(os.path.basename(p))
                argv += [b'./' + b if b.startswith(b'-') else b]
        reply = lab['reply']
        if reply['k'] == 'eof':
            stdin = b''
        elif reply['k'] == 'empty':
            stdin = b'\n'
        elif reply['k'] == 'invalid':
            stdin = self.rnd.choice(INVALID_REPLIES)
        else:
            stdin = self.spell_indexes(reply['idx'])
        res = self._run('trash-restore', argv, cwd, stdin=stdin, shim_kw=shim_kw)
        res['stdin'] = stdin.decode('latin-1')
        listing = {}
        bad = []
        for prefix, loc, raw in self.parse_records(res['stdout']):
            if loc is None:
                continue
            idx, tick = self.date_of_prefix(prefix, strip_index=True)
            if idx is None or tick is None:
                # "None" date (undated entry) has no digits after the index: handled by date_of_prefix
                bad.append(prefix + b'|' + raw)
                continue
            listing[idx] = {'date': tick, 'r': loc[0], 'd': loc[1], 'n': loc[2]}
        seq = []
        k = 0
        while k in listing:
            seq.append(listing[k])
            k += 1
        if len(seq) != len(listing):
            bad.append(b'non-contiguous indexes')
        obs = {'exit': runner.exit_class(res), 'listing': seq, 'unparsed': bad}
        return obs, res

    def spell_indexes(self, idx):
        """a reply string denoting the index sequence idx (layer F's Denote is checked on these separately)"""
        parts = []
        i = 0
        while i < len(idx):
            j = i
            while j + 1 < len(idx) and idx[j + 1] == idx[j] + 1:
                j += 1
            if j > i and self.rnd.random() < 0.7:
                parts.append('%d-%d' % (idx[i], idx[j]))
                i = j + 1
            else:
                style = self.rnd.randrange(5)
                s = str(idx[i])
                parts.append([s, ' ' + s, s + ' ', '+' + s, '0' + s][style])
                i += 1
        return (','.join(parts)).encode() + b'\n'

    # ---- empty -----------------------------------------------------------------------------------
    def empty(self, lab, state, slots, tty=False, shim_kw=None):
        w = self.w
        o = lab['opts']
        argv = []
        stdin = b''
        if o['consent'] == 'auto':
            if self.rnd.random() < 0.3:
                argv.append('-f')
        else:
            if not tty:
                # -i given: interactive, also when a -f (say, from an alias) comes BEFORE it
                r3 = random.Random('fi|%s|%s' % (w.conc.variant_seed, json.dumps(o, sort_keys=True)))
                if r3.random() < 0.3:
                    argv.append('-f')
                argv.append(self.rnd.choice(['-i', '--interactive']))
            pool = EMPTY_YES if o['consent'] == 'yes' else EMPTY_NO
            if tty:
                pool = [x for x in pool if x.endswith(b'\n')]       # a terminal delivers whole lines
            stdin = self.rnd.choice(pool)
        if o['dry']:
            argv.append('--dry-run')
        cwd = self.neutral_cwd()
        tdsp = None
        tdargs = {}
        if o['td'] == 'all':
            argv.append('--all-users')
        elif o['td'] != 'none':
            regs = o['td'].split('+')
            if len(regs) > 1 and self.rnd.random() < 0.5:
                regs.reverse()
            for r_ in regs:
                # several --trash-dir: relative spellings need one cwd, so only the first may choose it
                tdarg, c, tdsp = self.td_arg_of(r_, cwd_free=(cwd == self.neutral_cwd() and len(regs) == 1))
                cwd = c or cwd
                tdargs['c:' + r_] = tdarg
                argv += ['--trash-dir', tdarg] if self.rnd.random() < 0.7 else ['--trash-dir=' + tdarg]
        if self.rnd.random() < 0.25:
            argv.append('-v')
        if o['days'] != -1:
            # the same number, as argparse's int() reads it
            r7 = random.Random('days|%s|%s' % (w.conc.variant_seed, json.dumps(o, sort_keys=True)))
            argv.append(r7.choice(['%d', '%d', '%d', '0%d', '00%d']) % o['days'])
        env = {}
        now_tick = state['clock']
        if w.conc.clock_via_env:
            env['TRASH_DATE'] = w.conc.date_str(state['clock'])
        res = self._run('trash-empty', argv, cwd, stdin=stdin, env_extra=env, now_tick=now_tick,
                        tty=tty, shim_kw=shim_kw)
        res['td_spelling'] = tdsp
        printed = []
        bad = []
        if o['dry']:
            for line in res['stdout'].split(b'\n'):
                pass
            alt = {}
            for t_, tdarg in tdargs.items():
                a = os.fsencode(tdarg)
                alt[t_] = sorted(set([a, a.rstrip(b'/'), os.path.join(os.fsencode(cwd), a), os.path.join(os.fsencode(cwd), a.rstrip(b'/'))]))
            printed, bad = self.parse_trash_paths(res['stdout'], slots, alt)
        obs = {'exit': runner.exit_class(res), 'printed': printed, 'unparsed': bad}
        return obs, res

    def parse_trash_paths(self, text, slots, alt=None):
        """find the trash-internal paths mentioned at the end of records -> [t, part, ref].
        alt: {t: [other spellings of the trash directory the command may print (as given on the command line)]}"""
        w = self.w
        cands = {}
        alt = alt or {}
        for (t, slot), (kind, ident) in slots.items():
            tp0 = os.fsencode(w.tpath(t))
            for tp in [tp0] + ([self.alias(tp0)] if self.alias(tp0) else []) + list(alt.get(t, [])):
                if kind in ('item', 'orph'):
                    cands[tp + b'/files/' + slot] = {'t': t, 'part': 'files', 'ref': ident}
                if kind == 'item':
                    cands[tp + b'/info/' + slot + b'.trashinfo'] = {'t': t, 'part': 'info', 'ref': ident}
                if kind in ('stray', 'junk'):
                    cands[tp + b'/info/' + slot + b'.trashinfo'] = {'t': t, 'part': 'info', 'ref': -ident}
                    cands[tp + b'/files/' + slot] = {'t': t, 'part': 'files', 'ref': -ident}
        out = []
        bad = []
        # layout tolerant: a record names a path at its end; lines that name nothing inside a trash
        # directory (prompts, headings) are ignored
        keys = sorted(cands, key=len, reverse=True)
        marks = [os.fsencode(w.tpath(t)) for t in w.tdirs()] + [x for v in alt.values() for x in v]
        marks += [self.alias(m_) for m_ in list(marks) if self.alias(m_)]
        pos = 0
        while pos < len(text):
            best = None
            for p in keys:
                idx = text.find(p + b'\n', pos)
                if idx != -1 and (best is None or idx < best[0] or (idx == best[0] and len(p) > len(best[1]))):
                    best = (idx, p)
            seg_end = best[0] if best else len(text)
            for line in text[pos:seg_end].split(b'\n')[:-1] if best else text[pos:].split(b'\n'):
                if any(m + b'/files/' in line or m + b'/info/' in line for m in marks):
                    bad.append(line[:200])
            if best is None:
                break
            out.append(cands[best[1]])
            pos = best[0] + len(best[1]) + 1
        return out, bad

    # ---- rm ---------------------------------------------------------------------------------------------
    def rm(self, lab, state, shim_kw=None):
        w = self.w
        p = lab['pat']
        if p['k'] == 'name':
            nb = w.conc.name(p['n'])
            style = self.rnd.randrange(3)
            pat = glob_escape(nb)
            if style == 1 and len(nb) > 1:
                pat = glob_escape(nb[:-1]) + b'[' + (b'!' + bytes([nb[-1] ^ 1 or 2]) if nb[-1] not in b']!^-\\' else glob_escape(nb[-1:])[1:2]) + b']' \
                    if False else glob_escape(nb)
        elif p['k'] == 'path':
            pat = glob_escape(w.lpath(p['r'], p['d'], p['n']))
        elif p['k'] == 'all':
            pat = self.rnd.choice([b'*', b'**', b'[!/]*'])
        else:
            pat = self.rnd.choice([b'zz-no-match-*', b'?' * 300, b'/nowhere/*'])
        argv = ([b'--'] if False else []) + [pat]
        res = self._run('trash-rm', argv, self.neutral_cwd(), shim_kw=shim_kw)
        res['pattern'] = pat.decode('latin-1')
        return {'exit': runner.exit_class(res)}, res

    # ---- environment actions ---------------------------------------------------------------------------------
    def create(self, lab, state):
        w = self.w
        pb = w.lpath(lab['r'], lab['d'], lab['n'])
        w.make_object(lab['o'], w.cfg['kind'][lab['o'] - 1], pb)
        w.register(lab['o'], pb)
        w.baseline = world.snapshot(w.root)       # the harness itself changed the world
        return {'exit': 'ok'}, None

    def rmdir(self, lab, state):
        import shutil
        w = self.w
        p = w.dpath(lab['r'], lab['d'])
        shutil.rmtree(p)
        w.baseline = world.snapshot(w.root)
        return {'exit': 'ok'}, None

    def run(self, lab, state, slots=None, **kw):
        c = lab['cmd']
        if c == 'put':
            return self.put(lab, state, **kw)
        if c == 'list':
            return self.list(lab, state, **kw)
        if c == 'restore':
            return self.restore(lab, state, **kw)
        if c == 'listdirs':
            return self.listdirs(lab, state, **kw)
        if c == 'empty':
            return self.empty(lab, state, slots if slots is not None else self.w.slots, **kw)
        if c == 'rm':
            return self.rm(lab, state, **kw)
        if c == 'create':
            return self.create(lab, state)
        if c == 'rmdir':
            return self.rmdir(lab, state)
        if c == 'tick':
            return {'exit': 'ok'}, None
        raise ValueError(c)

"""Operation-level exploration of the real commands: lock-step scheduling of
several real processes, crash before every operation, fault at every operation.
The observed states are projected into the vocabulary of spec/PutOps.tla
(parts / info / pay / src) and judged by TLC (FsTrace.tla)."""
from __future__ import annotations

import json
import os
import random
import re
import select
import shutil
import tempfile
import time

from harness import runner, world

SHM = world.SHM


class OpBox(object):
    """sandbox for operation-level scenarios of trash-put: a root volume with HOME and a second volume m1"""

    def __init__(self, seed=0, uid=1000, tdir_exists=False, pre_info=(), pre_pay=(), base=b'n', kinds=('file',),
                 src_vol='R', fallback=False, second_cand_exists=False, short_writes=False):
        self.rnd = random.Random('opbox|%s' % seed)
        self.short_writes = short_writes      # every write stores only half of what it is given (and says so)
        self.base_dir = tempfile.mkdtemp(prefix='vo-', dir=SHM)
        self.root = os.path.join(self.base_dir, 'w')
        self.uid = uid
        self.name = base
        self.fallback = fallback
        os.makedirs(os.path.join(self.root, 'home', 'u'))
        os.makedirs(os.path.join(self.root, 'm1'))
        os.makedirs(os.path.join(self.root, 'cwd'))
        self.mounts = [self.root, os.path.join(self.root, 'm1')]
        self.home = os.path.join(self.root, 'home', 'u')
        self.src_vol = src_vol
        # every trash directory trash-put may end up using for a file on src_vol (a failing candidate makes it fall
        # through to the next one), in the order it tries them
        vtop = self.root if src_vol == 'R' else os.path.join(self.root, 'm1')
        hometrash = os.path.join(self.home, '.local', 'share', 'Trash')
        top1 = os.path.join(vtop, '.Trash', str(uid))
        top2 = os.path.join(vtop, '.Trash-%d' % uid)
        if src_vol == 'R':
            self.tdirs = {'t1': hometrash, 't2': top1, 't3': top2}
        elif fallback:
            # $topdir/.Trash-$uid is a regular file, so the only usable candidate is the home trash through the
            # fallback gate: the payload crosses volumes (copy + delete)
            with open(top2, 'w') as f:
                f.write('in the way')
            self.tdirs = {'t1': hometrash, 't2': top1}
        else:
            self.tdirs = {'t1': top2, 't2': top1}
        self.cand_order = sorted(self.tdirs)
        self.sources = {}
        self.digests = {}
        self.pre = {}
        for t in self.tdirs:
            pass
        if tdir_exists:
            p = self.tdirs['t1']
            os.makedirs(os.path.join(p, 'files'), mode=0o700)
            os.makedirs(os.path.join(p, 'info'), mode=0o700)
        pre_info = [(t, self.concrete_slot(sl) if isinstance(sl, str) else sl) for t, sl in pre_info]
        pre_pay = [(t, self.concrete_slot(sl) if isinstance(sl, str) else sl, k) for t, sl, k in pre_pay]
        for t, slot in pre_info:
            p = self.tdirs[t]
            os.makedirs(os.path.join(p, 'info'), exist_ok=True)
            os.makedirs(os.path.join(p, 'files'), exist_ok=True)
            with open(os.fsencode(os.path.join(p, 'info')) + b'/' + slot + b'.trashinfo', 'wb') as f:
                f.write(world.format_info(b'/somewhere/else/' + slot, '2001-01-01T00:00:00'))
        for t, slot, kind in pre_pay:
            p = self.tdirs[t]
            os.makedirs(os.path.join(p, 'info'), exist_ok=True)
            os.makedirs(os.path.join(p, 'files'), exist_ok=True)
            fp = os.fsencode(os.path.join(p, 'files')) + b'/' + slot
            if kind == 'dir':
                os.mkdir(fp)
                with open(fp + b'/old', 'wb') as f:
                    f.write(b'old orphan content')
            elif kind == 'emptydir':
                os.mkdir(fp)
            elif kind == 'dlink':
                os.symlink(b'/nonexistent/orphan-target', fp)
            else:
                with open(fp, 'wb') as f:
                    f.write(b'old orphan')
        self.kinds = kinds

    def add_source(self, p, kind):
        top = self.root if self.src_vol == 'R' else os.path.join(self.root, 'm1')
        d = os.path.join(top, 'src', p)
        os.makedirs(d)
        path = os.fsencode(d) + b'/' + self.name
        if kind == 'file':
            with open(path, 'wb') as f:
                f.write(b'payload of ' + p.encode() + b' ' * 5000)
        elif kind == 'empty':
            open(path, 'wb').close()
            mt = 1500000000 + 7 * len(self.sources)        # the identity of an empty file is its mtime
            os.utime(path, (mt, mt))
        elif kind == 'dir':
            os.mkdir(path)
            with open(path + b'/a', 'wb') as f:
                f.write(b'a of ' + p.encode())
            os.mkdir(path + b'/sub')
            with open(path + b'/sub/b', 'wb') as f:
                f.write(b'b of ' + p.encode())
            os.symlink(b'../a', path + b'/sub/l')
        elif kind == 'link':
            os.symlink(b'/nonexistent/' + p.encode(), path)
        # owned by a user and a group that have no passwd / group entry (an extracted archive, a foreign disk): nothing in
        # trash-put may depend on their names
        if os.geteuid() == 0 and len(self.sources) % 2 == 0:
            try:
                os.lchown(path, 61234, 61235)
                os.lchown(d, 61234, 61235)
            except OSError:
                pass
        self.sources[p] = path
        self.digests[p] = world.digest_of_sub(world.snapshot_sub(path))
        return path

    def baseline(self):
        self.base = {}
        # directories the scenario starts with (whatever their mode: not trash-put's doing)
        self.pre_parts = set()
        for t, p in self.tdirs.items():
            for part, pp in (('dir', p), ('files', os.path.join(p, 'files')), ('info', os.path.join(p, 'info'))):
                if os.path.isdir(pp):
                    self.pre_parts.add((t, part))
        for t, p in self.tdirs.items():
            for part in ('info', 'files'):
                d = os.fsencode(os.path.join(p, part))
                if os.path.isdir(d):
                    for n in os.listdir(d):
                        self.base[(t, part, n)] = world.digest_of_sub(world.snapshot_sub(d + b'/' + n))

    def destroy(self):
        shutil.rmtree(self.base_dir, ignore_errors=True)

    def env(self, extra=None):
        e = {'PATH': '/usr/bin:/bin', 'HOME': self.home, 'TRASH_PUT_FAKE_UID_FOR_TESTING': str(self.uid)}
        if self.fallback:
            e['TRASH_ENABLE_HOME_FALLBACK'] = '1'
        if extra:
            e.update(extra)
        return e

    def shim(self, **kw):
        c = {'root': self.root, 'mounts': self.mounts, 'uid': self.uid, 'seed': 1, 'trace': True, 'short_writes': self.short_writes}
        c.update(kw)
        return c

    def being_written(self, content, t):
        """is content a proper beginning of the .trashinfo of one of the sources in trash directory t?"""
        for q, sp in self.sources.items():
            want = sp
            tb = self.tbase(t)
            if tb is not None and sp.startswith(os.fsencode(tb) + b'/'):
                want = sp[len(os.fsencode(tb)) + 1:]
            head = b'[Trash Info]\nPath=' + world.escape(want) + b'\nDeletionDate='
            if head.startswith(content):
                return True
            if content.startswith(head) and re.fullmatch(rb'[0-9T:-]{0,19}', content[len(head):]):
                return True
        return False

    def put_argv(self, p):
        return (['--home-fallback'] if self.fallback else []) + ['--', self.sources[p]]

    def shared_prefixes(self):
        rootb = self.root
        out = []
        for t, p in self.tdirs.items():
            out.append(os.path.relpath(p, rootb))
        return out

    def long_name(self):
        return len(self.name) + len(b'.trashinfo') > 255

    def concrete_slot(self, a):
        """abstract slot n, n1, n2 ... -> the concrete name trash-put uses for it"""
        if a == 'n':
            return self.name
        suffix = b'_' + a[1:].encode()
        if self.long_name():
            return self.name[:len(self.name) - len(suffix) - len(b'.trashinfo')] + suffix
        return self.name + suffix

    # ---- projection into the vocabulary of PutOps.tla ------------------------------------------------------
    def slot_abs(self, slot):
        """concrete slot name -> abstract: n, n1, n2, ... ; anything else keeps a sanitised name"""
        if slot == self.name:
            return 'n'
        if slot.startswith(self.name + b'_') and slot[len(self.name) + 1:].isdigit():
            k = int(slot[len(self.name) + 1:])
            return 'n%d' % k
        # a name too long for its .trashinfo is shortened so that <shortened>_<k>.trashinfo has the length of the name
        m = re.match(br'^(.*)_(\d+)$', slot, re.S)
        if m and self.long_name() and len(slot) + len(b'.trashinfo') == len(self.name) and self.name.startswith(m.group(1)):
            return 'n%d' % int(m.group(2))
        return 'x' + slot.decode('latin-1').encode('ascii', 'backslashreplace').decode().replace('"', '_').replace('\\', '_')

    def project(self, creators=None):
        creators = creators or {}
        st = {'parts': {}, 'info': {}, 'pay': {}, 'src': {}, 'clobbered': False, 'notes': []}
        seen = set()
        for t, p in self.tdirs.items():
            parts = []
            if os.path.isdir(p):
                parts.append('dir')
            for part in ('files', 'info'):
                if os.path.isdir(os.path.join(p, part)):
                    parts.append(part)
            st['parts'][t] = parts
            # a trash directory (and its files/ and info/) is private from the moment it exists (C07): never observable with
            # another mode, not even between two operations of the run that creates it
            for part in parts:
                if (t, part) in getattr(self, 'pre_parts', ()):
                    continue
                pp = p if part == 'dir' else os.path.join(p, part)
                try:
                    md = os.lstat(pp).st_mode & 0o7777 & ~0o2000
                except OSError:
                    continue
                if md != 0o700:
                    st['notes'].append('mode: %s of %s has mode %o' % (part, t, md))
            st['info'][t] = {}
            st['pay'][t] = {}
            idir = os.fsencode(os.path.join(p, 'info'))
            fdir = os.fsencode(os.path.join(p, 'files'))
            if os.path.isdir(idir):
                for n in os.listdir(idir):
                    key = (t, 'info', n)
                    seen.add(key)
                    slot = n[:-10] if n.endswith(b'.trashinfo') else n
                    a = self.slot_abs(slot)
                    full = idir + b'/' + n
                    if key in self.base:
                        if world.digest_of_sub(world.snapshot_sub(full)) == self.base[key]:
                            st['info'][t][a] = {'st': 'pre', 'owner': '-'}
                        else:
                            st['clobbered'] = True
                            st['notes'].append('pre-existing info %r modified' % n)
                            st['info'][t][a] = {'st': 'full', 'owner': '?'}
                        continue
                    try:
                        content = open(full, 'rb').read()
                    except (IsADirectoryError, OSError):
                        content = None
                    owner = creators.get((t, 'info', n), '?')
                    if content is None:
                        st['info'][t][a] = {'st': 'garbage', 'owner': owner}
                    elif content == b'':
                        st['info'][t][a] = {'st': 'empty', 'owner': owner}
                    else:
                        pth, dat = world.parse_info(content)
                        who = None
                        for q, sp in self.sources.items():
                            want = sp
                            tb = self.tbase(t)
                            if tb is not None and sp.startswith(os.fsencode(tb) + b'/'):
                                want = sp[len(os.fsencode(tb)) + 1:]
                            if pth == want:
                                who = q
                        ok = who is not None and dat is not None and content.startswith(b'[Trash Info]\n') and content.endswith(b'\n')
                        if not ok and self.being_written(content, t):
                            # a beginning of a well-formed info (a write that stored only a part so far): not complete yet
                            st['info'][t][a] = {'st': 'empty', 'owner': owner}
                            continue
                        st['info'][t][a] = {'st': 'full' if ok else 'garbage', 'owner': who or owner}
            if os.path.isdir(fdir):
                for n in os.listdir(fdir):
                    key = (t, 'files', n)
                    seen.add(key)
                    a = self.slot_abs(n)
                    d = world.digest_of_sub(world.snapshot_sub(fdir + b'/' + n))
                    if key in self.base:
                        if d == self.base[key]:
                            st['pay'][t][a] = {'st': 'pre', 'owner': '-'}
                        else:
                            st['clobbered'] = True
                            st['notes'].append('pre-existing payload %r modified (merged into / overwritten)' % n)
                            st['pay'][t][a] = {'st': 'partial', 'owner': '?'}
                        continue
                    who = [q for q, dq in self.digests.items() if dq == d]
                    if who:
                        st['pay'][t][a] = {'st': 'whole', 'owner': who[0]}
                    else:
                        st['pay'][t][a] = {'st': 'partial', 'owner': creators.get((t, 'files', n), '?')}
        for key in self.base:
            if key not in seen:
                st['clobbered'] = True
                st['notes'].append('pre-existing %s %r vanished' % (key[1], key[2]))
        for q, sp in self.sources.items():
            if os.path.lexists(sp):
                d = world.digest_of_sub(world.snapshot_sub(sp))
                st['src'][q] = 'present' if d == self.digests[q] else 'partial'
            else:
                st['src'][q] = 'gone'
        return st

    def tbase(self, t):
        p = self.tdirs[t]
        if p.startswith(self.home + '/'):
            return None                       # home trash: absolute paths
        if p.startswith(os.path.join(self.root, 'm1') + '/'):
            return os.path.join(self.root, 'm1')
        return self.root


def classify_creator(box, ev, creators):
    """remember which process created which entry of a trash directory"""
    if ev.get('res') != 'ok':
        return
    op = ev['op']
    if op not in ('open_excl', 'open_w', 'mkdir', 'rename', 'symlink'):
        return
    rel = ev['raw'][-1]
    if rel is None:
        return
    full = os.path.join(box.root, rel)
    for t, p in box.tdirs.items():
        for part in ('info', 'files'):
            d = os.path.join(p, part) + '/'
            if full.startswith(d):
                first = full[len(d):].split('/')[0]
                creators.setdefault((t, part, os.fsencode(first)), ev['p'])


# ---- lock-step controller -------------------------------------------------------------------------------

class Proc(object):
    pass


def start_lockstep(box, pnames, extra_shim=None, now=(2020, 1, 1, 0, 0, 0), commands=None, all_ops=False):
    """commands: optional {process name: (script, argv)}; default: trash-put of the process's own source"""
    procs = {}
    for p in pnames:
        pr = Proc()
        pr.name = p
        a_r, a_w = os.pipe()
        t_r, t_w = os.pipe()
        pr.ann_r, pr.tok_w = a_r, t_w
        cfg = box.shim(pname=p, lockstep={'ann': a_w, 'tok': t_r, 'shared': [] if all_ops else box.shared_prefixes()})
        if extra_shim:
            cfg.update(extra_shim)
        script, argv = (commands or {}).get(p, ('trash-put', None))
        pr.h = runner.spawn(script, box.put_argv(p) if argv is None else argv, os.path.join(box.root, 'cwd'), box.env(),
                            shim_cfg=cfg, now=now)
        os.close(a_w)
        os.close(t_r)
        pr.buf = b''
        pr.want = None
        pr.alive = True
        pr.events = []
        procs[p] = pr
    return procs


def read_msg(pr, timeout=15.0):
    """next JSON message from the child's announce pipe, or None at EOF"""
    deadline = time.time() + timeout
    while b'\n' not in pr.buf:
        r, _, _ = select.select([pr.ann_r], [], [], max(0, deadline - time.time()))
        if not r:
            return {'timeout': True}
        chunk = os.read(pr.ann_r, 65536)
        if not chunk:
            return None
        pr.buf += chunk
    line, pr.buf = pr.buf.split(b'\n', 1)
    return json.loads(line.decode('utf-8', 'surrogateescape'))


def advance_to_want(pr):
    """read until the process announces its next shared operation (sets pr.want) or ends"""
    while True:
        m = read_msg(pr)
        if m is None:
            pr.alive = False
            pr.want = None
            return
        if m.get('timeout'):
            pr.alive = False
            pr.want = None
            pr.hung = True
            return
        if 'want' in m:
            pr.want = m
            return
        if 'done' in m:
            pr.events.append(m)


def run_schedule(box, pnames, choose, max_steps=400, control=None, commands=None, all_ops=False):
    """Run the processes in lock-step.  choose(step, runnable, current) -> process name.
    control(step, proc, want) -> None | 'K' (kill before the operation) | errno name (fault).
    Returns (steps, results): steps = [{p, op, raw, res, state}], results = {p: runner result}."""
    procs = start_lockstep(box, pnames, commands=commands, all_ops=all_ops)
    creators = {}
    steps = []
    try:
        for pr in procs.values():
            advance_to_want(pr)
        cur = None
        k = 0
        while k < max_steps:
            runnable = sorted(p for p, pr in procs.items() if pr.alive and pr.want is not None)
            if not runnable:
                break
            p = choose(k, runnable, cur)
            pr = procs[p]
            want = pr.want
            act = control(k, p, want) if control else None
            if act == 'K':
                os.write(pr.tok_w, b'K')
            elif act:
                os.write(pr.tok_w, b'F' + act.encode() + b'\n')
            else:
                os.write(pr.tok_w, b'g')
            pr.want = None
            n0 = len(pr.events)
            advance_to_want(pr)
            done = pr.events[n0] if len(pr.events) > n0 else {'op': want['op'], 'raw': want['raw'], 'res': 'CRASH' if act == 'K' else '?', 'p': p}
            classify_creator(box, dict(done, p=p), creators)
            st = box.project(creators)
            steps.append({'k': k, 'p': p, 'op': want['op'], 'raw': want['raw'], 'res': done.get('res'), 'state': st,
                          'alive': sorted(q for q, x in procs.items() if x.alive)})
            cur = p
            k += 1
        results = {}
        for p, pr in procs.items():
            if pr.alive:
                # budget exhausted: kill
                try:
                    os.kill(pr.h.pid, 9)
                except OSError:
                    pass
            results[p] = runner.finish(pr.h, timeout=10)
            results[p]['hung'] = getattr(pr, 'hung', False) or pr.alive
        return steps, results, creators
    finally:
        for pr in procs.values():
            for fd in (pr.ann_r, pr.tok_w):
                try:
                    os.close(fd)
                except OSError:
                    pass


def policy_from_preemptions(preempts):
    """preempts: {step: target process}: otherwise keep running the current process, else the first runnable"""
    def choose(k, runnable, cur):
        if k in preempts and preempts[k] in runnable:
            return preempts[k]
        if cur in runnable:
            return cur
        return runnable[0]
    return choose


def final_obs(box, steps, results, creators, faulty=False):
    st = box.project(creators)
    done = {}
    res = {}
    for p, r in results.items():
        done[p] = True
        res[p] = 'ok' if r['exit'] == 0 and not r.get('uncaught') else 'fail'
    return {'state': st, 'done': done, 'res': res, 'faulty': faulty,
            'stderr': {p: r['stderr'][-400:].decode('utf-8', 'replace') for p, r in results.items()},
            'exit': {p: r['exit'] for p, r in results.items()}}

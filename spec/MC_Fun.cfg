INIT Init
NEXT Next
INVARIANT LawHolds
CHECK_DEADLOCK FALSE

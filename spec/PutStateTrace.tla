---------------------------- MODULE PutStateTrace ----------------------------
(***************************************************************************)
(* State-based design conformance of trash-put, copy path included: the    *)
(* sequence of DISTINCT on-disk states observed after the operations of    *)
(* one or several real trash-put processes run in lock-step (projected by  *)
(* the harness into parts / info / pay / src) must be a behaviour of       *)
(* PutOps.tla up to stuttering: every observed change is one step of some  *)
(* process of the design; steps that change nothing observable (probes,    *)
(* EEXIST answers, close, the EXDEV answer of the rename) are taken        *)
(* silently.  Unlike PutOpsTrace.tla (which binds each logged operation to *)
(* its action) this validator needs no event vocabulary, so it also covers *)
(* the copy + delete move of the home fallback.                            *)
(*                                                                         *)
(* Grain of atomicity: the design deletes a source in two steps (partly,   *)
(* wholly) because a tree goes file by file; a source that is one file or  *)
(* one link goes in a single unlink: DelSrcAtOnce composes the two steps   *)
(* for the processes in FileProcs; a symbolic link is copied complete by   *)
(* one symlink(): CopyAtOnce composes the two copy steps for LinkProcs.    *)
(***************************************************************************)
EXTENDS PutOps, Json, IOUtils

CONSTANTS FileProcs,     \* processes whose source is a single file / link (deleted by one operation)
          LinkProcs      \* processes whose source is a symbolic link (copied by one operation: symlink() makes it complete)

Traces == JsonDeserialize(IOEnv.TRACE_FILE)
VARIABLES tid, l
tvars == <<vars, tid, l>>
Tr == Traces[tid]

Rec(x) == [st |-> x.st, owner |-> x.owner]
Lookup(m, t, s) == IF t \in DOMAIN m /\ s \in DOMAIN m[t] THEN Rec(m[t][s]) ELSE NoneV
SetOf(q) == {q[i] : i \in DOMAIN q}

InitT == Init /\ tid \in 1 .. Len(Traces) /\ l = 1

MatchesNext(o) ==
  /\ \A t \in TDs : parts'[t] = (IF t \in DOMAIN o.parts THEN SetOf(o.parts[t]) ELSE {})
  /\ \A t \in TDs, s \in AllSlots : info'[t][s] = Lookup(o.info, t, s) /\ pay'[t][s] = Lookup(o.pay, t, s)
  /\ \A p \in Procs : src'[p] = (IF p \in DOMAIN o.src THEN o.src[p] ELSE "present")

DelSrcAtOnce(p) ==
  /\ p \in FileProcs /\ pc[p] = "delsrc" /\ src[p] = "present"
  /\ src' = [src EXCEPT ![p] = "gone"] /\ pc' = [pc EXCEPT ![p] = "finish"]
  /\ UNCHANGED <<parts, info, pay, cand, idx, slot, part, res, nfaults, clobbered, strayleft>>

CopyAtOnce(p) ==
  /\ p \in LinkProcs /\ pc[p] = "copy" /\ pay[T(p)][slot[p]] = NoneV
  /\ pay' = [pay EXCEPT ![T(p)][slot[p]] = Own("whole", p)] /\ pc' = [pc EXCEPT ![p] = "delsrc"]
  /\ UNCHANGED <<parts, info, src, cand, idx, slot, part, res, nfaults, clobbered, strayleft>>

StepT(p) == Step(p) \/ DelSrcAtOnce(p) \/ CopyAtOnce(p)
Obs == <<parts, info, pay, src>>

Silent == (\E p \in Procs : StepT(p)) /\ UNCHANGED Obs /\ UNCHANGED <<tid, l>>
Observed ==
  /\ l <= Len(Tr) /\ l' = l + 1 /\ tid' = tid
  /\ \E p \in Procs : StepT(p)
  /\ MatchesNext(Tr[l])
NextT == Silent \/ Observed

Accepted == l = Len(Tr) + 1
ReportAccept == ~Accepted \/ PrintT(<<"##ACCEPT", tid>>)
=============================================================================

----------------------------- MODULE Gen_Trash -----------------------------
(***************************************************************************)
(* Generation configurations: TLC enumerates seed states (the Init_X predicates) and the  *)
(* instances of the property's own actions (the Next_X actions) and prints every edge  *)
(* it explores as one JSON line  [cfg, pre, lab, post].  The harness       *)
(* materialises pre, runs the real command, projects and compares.         *)
(***************************************************************************)
EXTENDS Trash, Json

CONSTANTS MaxDepth

Emit == PrintT("@@" \o ToJson([cfg |-> cfg, pre |-> St, lab |-> out', post |-> St']))
Bound == TLCGet("level") <= MaxDepth
View == <<cfg, svars>>

StdKind == [o \in Objs |-> CASE o % 4 = 1 -> "file" [] o % 4 = 2 -> "dir" [] o % 4 = 3 -> "link" [] OTHER -> "dlink"]
AllTop == {[r \in Regions |-> "absent"]}
TopOn(v, x) == [r \in Regions |-> IF r = v THEN x ELSE "absent"]
TopDirs == {[r |-> x, d |-> "top"] : x \in Regions}
BaseDirs == TopDirs \cup {[r |-> r, d |-> "d"] : r \in Regions}

Layouts == {{"R", "V1"}, {"R", "H", "V1"}, {"R", "V1", "V2"}, {"R", "H", "V1", "V2"}}

EmptyTrash == /\ tex = {} /\ items = {} /\ orph = {} /\ strays = {} /\ junk = {}

-----------------------------------------------------------------------------
(* C01 / C07 / C16 / C18: trash-put over the configuration lattice          *)

CfgsPut ==
  {c \in [mounted : Layouts,
          top     : {TopOn("V1", x) : x \in TopStates} \cup {TopOn("R", "sticky"), TopOn("V2", "sticky")},
          altfile : {{}, {"V1"}, {"R"}},
          xdg     : {"set", "unset", "empty"},
          home    : {"set", "unset"},
          kind    : {StdKind}] :
     /\ (c.top["V2"] # "absent" => "V2" \in c.mounted)
     /\ (c.home = "unset" => c.xdg # "empty")}

LivePut == {[r |-> "R", d |-> "d", n |-> "a", o |-> 1], [r |-> "V1", d |-> "top", n |-> "a", o |-> 2],
            [r |-> "V1", d |-> "d", n |-> "b", o |-> 3], [r |-> "V2", d |-> "d", n |-> "a", o |-> 4],
            [r |-> "H", d |-> "d", n |-> "a", o |-> 5], [r |-> "R", d |-> "top", n |-> "b", o |-> 6]}

Init_Put ==
  /\ cfg \in CfgsPut
  /\ live = LivePut
  /\ dirs = BaseDirs
  /\ EmptyTrash
  /\ clock = 1 /\ purged = {} /\ out = [cmd |-> "init"]

ArgsPut == {[class |-> "entry", r |-> e.r, d |-> e.d, n |-> e.n] : e \in LivePut}
           \cup {[class |-> "entry", r |-> "V1", d |-> "d", n |-> "a"]}          \* missing
           \cup {[class |-> "dot", r |-> "V1", d |-> "d"], [class |-> "dot", r |-> "R", d |-> "d"]}
           \cup {[class |-> "mount", r |-> "V1"]}
OptsPut == {o \in PutOptsSet : /\ (o.td # "none" => o.td \in {"R", "V1"} /\ ~o.hf /\ ~o.hfenv)
                               /\ (o.inter # "off" => ~o.force)}

\* a dot entry under -i with a negative answer may be refused (failure) or skipped (declined): unconstrained, not generated
ArgOptOK(a, o) == /\ (a.class = "mount" => a.r \in cfg.mounted)
                  /\ (a.class = "dot" => o.inter # "decline")
Next_Put1 == \E a \in ArgsPut, o \in OptsPut : ArgOptOK(a, o) /\ Put(<<a>>, o) /\ Emit

-----------------------------------------------------------------------------
(* trash-put into trash directories that already hold entries with the same name,  *)
(* payloads without info and infos without payload                                 *)

CfgsBusy ==
  {c \in [mounted : {{"R", "V1"}, {"R", "H", "V1"}},
          top     : {TopOn("V1", x) : x \in {"absent", "sticky"}},
          altfile : {{}},
          xdg     : {"set", "unset"},
          home    : {"set"},
          kind    : {StdKind}] : TRUE}
LiveBusy == {[r |-> "R", d |-> "d", n |-> "a", o |-> 1], [r |-> "V1", d |-> "top", n |-> "a", o |-> 2],
             [r |-> "V1", d |-> "d", n |-> "a", o |-> 3], [r |-> "R", d |-> "top", n |-> "b", o |-> 4]}
BusyT == {"home", "t1:V1", "t2:V1", "t2:R"}
Init_PutBusy ==
  /\ cfg \in CfgsBusy
  /\ live = LiveBusy
  /\ dirs = BaseDirs
  /\ tex \in {X \in SUBSET BusyT : ("t1:V1" \in X => cfg.top["V1"] = "sticky") /\ Cardinality(X) >= 1}
  /\ \E sel \in SUBSET {"item", "orph", "stray", "junk"} :
       /\ items = IF "item" \in sel THEN {[t |-> t, o |-> 5, r |-> "V1", d |-> "top", n |-> "a", date |-> 0] : t \in {CHOOSE x \in tex : TRUE}}
                                            \cup {[t |-> t, o |-> 6, r |-> "R", d |-> "d", n |-> "a", date |-> 1] : t \in {CHOOSE x \in tex : TRUE}}
                   ELSE {}
       /\ orph = IF "orph" \in sel THEN {[t |-> t, o |-> 7] : t \in {CHOOSE x \in tex : TRUE}} ELSE {}
       /\ strays = IF "stray" \in sel THEN {[t |-> t, id |-> 1, r |-> "R", d |-> "d", n |-> "a", date |-> 0] : t \in tex} ELSE {}
       /\ junk = IF "junk" \in sel THEN {[t |-> t, id |-> 2, kind |-> "nopath"] : t \in tex} \cup {[t |-> t, id |-> 3, kind |-> "notinfo"] : t \in tex} ELSE {}
  /\ clock = 2 /\ purged = {} /\ out = [cmd |-> "init"]
ArgsBusy == {[class |-> "entry", r |-> e.r, d |-> e.d, n |-> e.n] : e \in LiveBusy}
OptsBusy == {o \in PutOptsSet : o.td = "none" /\ ~o.force /\ o.inter = "off" /\ (o.hf => o.hfenv)}
Next_PutBusy == \E a \in ArgsBusy, o \in OptsBusy : Put(<<a>>, o) /\ Emit

-----------------------------------------------------------------------------
(* C06: trash-restore onto destinations that are occupied                          *)

KindsFDLX == [o \in Objs |-> CASE o % 4 = 1 -> "file" [] o % 4 = 2 -> "dir" [] o % 4 = 3 -> "link" [] OTHER -> "dlink"]
CfgsPlain == {[mounted |-> m, top |-> TopOn("V1", x), altfile |-> {}, xdg |-> "set", home |-> "set", kind |-> KindsFDLX] :
                 m \in {{"R", "V1"}, {"R", "H", "V1"}}, x \in {"absent", "sticky"}}
\* two trashed entries (kinds vary with the object id) whose destinations are free / occupied by any kind
Init_Clobber ==
  /\ cfg \in CfgsPlain
  /\ dirs = BaseDirs
  /\ \E pa \in 1 .. 4, pb \in 1 .. 4, oa \in 0 .. 4, ob \in {0, 6} :
       /\ items = {[t |-> "home", o |-> 8 + pa, r |-> "R", d |-> "d", n |-> "a", date |-> 0],
                   [t |-> IF cfg.top["V1"] = "sticky" THEN "t1:V1" ELSE "t2:V1", o |-> 4 + pb, r |-> "V1", d |-> "d", n |-> "b", date |-> 1]}
                   \* 8+pa in 9..12, 4+pb in 5..8: kinds cycle through file, dir, link, dlink
       /\ live = (IF oa = 0 THEN {} ELSE {[r |-> "R", d |-> "d", n |-> "a", o |-> oa]})
                  \cup (IF ob = 0 THEN {} ELSE {[r |-> "V1", d |-> "d", n |-> "b", o |-> 13]})
  /\ tex = {i.t : i \in items} /\ orph = {} /\ strays = {} /\ junk = {}
  /\ clock = 2 /\ purged = {} /\ out = [cmd |-> "init"]
Next_Clobber ==
  \E sort \in {"date", "path"}, ow \in BOOLEAN,
     reply \in {[k |-> "idx", idx |-> <<0>>], [k |-> "idx", idx |-> <<1>>], [k |-> "idx", idx |-> <<0, 1>>], [k |-> "idx", idx |-> <<1, 0>>]} :
     Restore([k |-> "root"], "none", sort, reply, ow) /\ Emit

=============================================================================

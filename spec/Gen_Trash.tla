----------------------------- MODULE Gen_Trash -----------------------------
(***************************************************************************)
(* Generation configurations: TLC enumerates seed states (the Init_X predicates) and the  *)
(* instances of the property's own actions (the Next_X actions) and prints every edge  *)
(* it explores as one JSON line  [cfg, pre, lab, post].  The harness       *)
(* materialises pre, runs the real command, projects and compares.         *)
(***************************************************************************)
EXTENDS Trash, Json

CONSTANTS MaxDepth,
          GenLevel     \* 1 = the argument ranges of the quick tier, 2 = the full ranges

Emit == PrintT("@@" \o ToJson([cfg |-> cfg, pre |-> St, lab |-> out', post |-> St']))
Bound == TLCGet("level") <= MaxDepth
View == <<cfg, svars>>

StdKind == [o \in Objs |-> CASE o % 4 = 1 -> "file" [] o % 4 = 2 -> "dir" [] o % 4 = 3 -> "link" [] OTHER -> "dlink"]
AllTop == {[r \in Regions |-> "absent"]}
TopOn(v, x) == [r \in Regions |-> IF r = v THEN x ELSE "absent"]
TopDirs == {[r |-> x, d |-> "top"] : x \in Regions}
BaseDirs == TopDirs \cup {[r |-> r, d |-> "d"] : r \in Regions}

Layouts == {{"R", "V1"}, {"R", "H", "V1"}, {"R", "V1", "V2"}, {"R", "H", "V1", "V2"}}

EmptyTrash == /\ tex = {} /\ items = {} /\ orph = {} /\ strays = {} /\ junk = {}

-----------------------------------------------------------------------------
(* C01 / C07 / C16 / C18: trash-put over the configuration lattice          *)

CfgsPut ==
  {c \in [mounted : Layouts,
          top     : {TopOn("V1", x) : x \in TopStates} \cup {TopOn("R", "sticky"), TopOn("V2", "sticky")},
          altfile : {{}, {"V1"}, {"R"}},
          xdg     : {"set", "unset", "empty"},
          home    : {"set", "unset"}, hlink : {"none", "V1"},
          kind    : {StdKind}] :
     /\ (c.hlink # "none" => c.xdg = "set" /\ c.home = "set")
     /\ (c.top["V2"] # "absent" => "V2" \in c.mounted)
     /\ (c.home = "unset" => c.xdg # "empty")}

LivePut == {[r |-> "R", d |-> "d", n |-> "a", o |-> 1], [r |-> "V1", d |-> "top", n |-> "a", o |-> 2],
            [r |-> "V1", d |-> "d", n |-> "b", o |-> 3], [r |-> "V2", d |-> "d", n |-> "a", o |-> 4],
            [r |-> "H", d |-> "d", n |-> "a", o |-> 5], [r |-> "R", d |-> "top", n |-> "b", o |-> 6]}

Init_Put ==
  /\ cfg \in CfgsPut
  /\ live = LivePut
  /\ dirs = BaseDirs
  /\ EmptyTrash
  /\ clock = 1 /\ purged = {} /\ out = [cmd |-> "init"]

ArgsPut == {[class |-> "entry", r |-> e.r, d |-> e.d, n |-> e.n] : e \in LivePut}
           \cup {[class |-> "entry", r |-> "V1", d |-> "d", n |-> "a"]}          \* missing
           \cup {[class |-> "dot", r |-> "V1", d |-> "d"], [class |-> "dot", r |-> "R", d |-> "d"]}
           \cup {[class |-> "mount", r |-> "V1"]}
OptsPut == {o \in PutOptsSet : /\ (o.td # "none" => o.td \in {"R", "V1"} /\ ~o.hf /\ ~o.hfenv)
                               /\ (o.inter # "off" => ~o.force)}

\* a dot entry under -i with a negative answer may be refused (failure) or skipped (declined): unconstrained, not generated
ArgOptOK(a, o) == /\ (a.class = "mount" => a.r \in cfg.mounted)
                  /\ (a.class = "dot" => o.inter # "decline")
Next_Put1 == \E a \in ArgsPut, o \in OptsPut : ArgOptOK(a, o) /\ Put(<<a>>, o) /\ Emit

-----------------------------------------------------------------------------
(* trash-put into trash directories that already hold entries with the same name,  *)
(* payloads without info and infos without payload                                 *)

CfgsBusy ==
  {c \in [mounted : {{"R", "V1"}, {"R", "H", "V1"}},
          top     : {TopOn("V1", x) : x \in {"absent", "sticky"}},
          altfile : {{}},
          xdg     : {"set", "unset"},
          home    : {"set"}, hlink : {"none"},
          kind    : {StdKind}] : TRUE}
LiveBusy == {[r |-> "R", d |-> "d", n |-> "a", o |-> 1], [r |-> "V1", d |-> "top", n |-> "a", o |-> 2],
             [r |-> "V1", d |-> "d", n |-> "a", o |-> 3], [r |-> "R", d |-> "top", n |-> "b", o |-> 4]}
BusyT == {"home", "t1:V1", "t2:V1", "t2:R"}
Init_PutBusy ==
  /\ cfg \in CfgsBusy
  /\ live = LiveBusy
  /\ dirs = BaseDirs
  /\ tex \in {X \in SUBSET BusyT : ("t1:V1" \in X => cfg.top["V1"] = "sticky") /\ Cardinality(X) >= 1}
  /\ \E sel \in SUBSET {"item", "orph", "stray", "junk"} :
       /\ items = IF "item" \in sel THEN {[t |-> t, o |-> 5, r |-> "V1", d |-> "top", n |-> "a", date |-> 0] : t \in {CHOOSE x \in tex : TRUE}}
                                            \cup {[t |-> t, o |-> 6, r |-> "R", d |-> "d", n |-> "a", date |-> 1] : t \in {CHOOSE x \in tex : TRUE}}
                   ELSE {}
       /\ orph = IF "orph" \in sel THEN {[t |-> t, o |-> 7] : t \in {CHOOSE x \in tex : TRUE}} ELSE {}
       /\ strays = IF "stray" \in sel THEN {[t |-> t, id |-> 1, r |-> "R", d |-> "d", n |-> "a", date |-> 0] : t \in tex} ELSE {}
       /\ junk = IF "junk" \in sel THEN {[t |-> t, id |-> 2, kind |-> "nopath"] : t \in tex} \cup {[t |-> t, id |-> 3, kind |-> "notinfo"] : t \in tex} ELSE {}
  /\ clock = 2 /\ purged = {} /\ out = [cmd |-> "init"]
ArgsBusy == {[class |-> "entry", r |-> e.r, d |-> e.d, n |-> e.n] : e \in LiveBusy}
OptsBusy == {o \in PutOptsSet : o.td = "none" /\ ~o.force /\ o.inter = "off" /\ (o.hf => o.hfenv)}
Next_PutBusy == \E a \in ArgsBusy, o \in OptsBusy : Put(<<a>>, o) /\ Emit

-----------------------------------------------------------------------------
(* C06: trash-restore onto destinations that are occupied                          *)

KindsFDLX == [o \in Objs |-> CASE o % 4 = 1 -> "file" [] o % 4 = 2 -> "dir" [] o % 4 = 3 -> "link" [] OTHER -> "dlink"]
CfgsPlain == {[mounted |-> m, top |-> TopOn("V1", x), altfile |-> {}, xdg |-> "set", home |-> "set", hlink |-> "none", kind |-> KindsFDLX] :
                 m \in {{"R", "V1"}, {"R", "H", "V1"}}, x \in {"absent", "sticky"}}
\* two trashed entries (kinds vary with the object id) whose destinations are free / occupied by any kind
Init_Clobber ==
  /\ cfg \in CfgsPlain
  /\ dirs = BaseDirs
  /\ \E pa \in 1 .. 4, pb \in 1 .. 4, oa \in 0 .. 4, ob \in {0, 6} :
       /\ items = {[t |-> "home", o |-> 8 + pa, r |-> "R", d |-> "d", n |-> "a", date |-> 0],
                   [t |-> IF cfg.top["V1"] = "sticky" THEN "t1:V1" ELSE "t2:V1", o |-> 4 + pb, r |-> "V1", d |-> "d", n |-> "b", date |-> 1]}
                   \* 8+pa in 9..12, 4+pb in 5..8: kinds cycle through file, dir, link, dlink
       /\ live = (IF oa = 0 THEN {} ELSE {[r |-> "R", d |-> "d", n |-> "a", o |-> oa]})
                  \cup (IF ob = 0 THEN {} ELSE {[r |-> "V1", d |-> "d", n |-> "b", o |-> 13]})
  /\ tex = {i.t : i \in items} /\ orph = {} /\ strays = {} /\ junk = {}
  /\ clock = 2 /\ purged = {} /\ out = [cmd |-> "init"]
\* two trashed entries with the SAME original location (trashed one after the other): restoring both in one run must
\* restore the first selected and refuse the second (its destination is occupied by then)
Init_ClobberSame ==
  /\ cfg \in CfgsPlain
  /\ dirs = BaseDirs
  \* samedate: trashed within the same second - two entries that print alike are still two entries, with two indices
  /\ \E pa \in 1 .. 4, pb \in 1 .. 4, third \in BOOLEAN, samedate \in BOOLEAN :
       items = {[t |-> "home", o |-> 8 + pa, r |-> "R", d |-> "d", n |-> "a", date |-> 0],
                [t |-> "home", o |-> 4 + pb, r |-> "R", d |-> "d", n |-> "a", date |-> IF samedate THEN 0 ELSE 1]}
               \cup (IF third THEN {[t |-> "t2:V1", o |-> 13, r |-> "V1", d |-> "d", n |-> "b", date |-> 2]} ELSE {})
  /\ live = {}
  /\ tex = {"home", "t2:V1"} /\ orph = {} /\ strays = {} /\ junk = {}
  /\ clock = 3 /\ purged = {} /\ out = [cmd |-> "init"]
Next_ClobberSame ==
  \E sort \in {"date", "path", "none"}, ow \in BOOLEAN,
     reply \in {[k |-> "idx", idx |-> <<0, 1>>], [k |-> "idx", idx |-> <<1, 0>>], [k |-> "idx", idx |-> <<0>>], [k |-> "idx", idx |-> <<0, 1, 2>>]} :
     (\A i \in 1 .. Len(reply.idx) : reply.idx[i] < Cardinality(items)) /\ Restore([k |-> "root"], "none", sort, reply, ow) /\ Emit

\* an info WITHOUT payload (what a killed trash-put or a killed trash-restore leaves) whose original location is free or
\* occupied by any kind of entry: selecting it is an error, and - with or without --overwrite - whatever lives at the
\* location stays (there is nothing to replace it with); a second, complete entry is restored or not as usual
Init_ClobberStray ==
  /\ cfg \in CfgsPlain
  /\ dirs = BaseDirs
  /\ \E oa \in 0 .. 4, pb \in 1 .. 4 :
       /\ live = IF oa = 0 THEN {} ELSE {[r |-> "R", d |-> "d", n |-> "a", o |-> oa]}
       /\ items = {[t |-> "t2:V1", o |-> 4 + pb, r |-> "V1", d |-> "d", n |-> "b", date |-> 1]}
  /\ strays = {[t |-> "home", id |-> 1, r |-> "R", d |-> "d", n |-> "a", date |-> 0]}
  /\ tex = {"home", "t2:V1"} /\ orph = {} /\ junk = {}
  /\ clock = 2 /\ purged = {} /\ out = [cmd |-> "init"]

Next_Clobber ==
  \E sort \in {"date", "path"}, ow \in BOOLEAN,
     reply \in {[k |-> "idx", idx |-> <<0>>], [k |-> "idx", idx |-> <<1>>], [k |-> "idx", idx |-> <<0, 1>>], [k |-> "idx", idx |-> <<1, 0>>]} :
     Restore([k |-> "root"], "none", sort, reply, ow) /\ Emit

-----------------------------------------------------------------------------
(* C08: every state of $topdir/.Trash with a populated .Trash/$uid, all five commands *)

CfgsInsecure ==
  {[mounted |-> m, top |-> TopOn("V1", x), altfile |-> {}, xdg |-> "set", home |-> "set", hlink |-> "none", kind |-> KindsFDLX] :
      m \in {{"R", "V1"}, {"R", "V1", "V2"}}, x \in TopStates \ {"absent", "file"}}
Init_Insecure ==
  /\ cfg \in CfgsInsecure
  /\ dirs = BaseDirs
  /\ live = {[r |-> "V1", d |-> "top", n |-> "b", o |-> 1], [r |-> "R", d |-> "d", n |-> "b", o |-> 2]}
  /\ tex = {"t1:V1", "t2:V1", "home"}
  /\ items = {[t |-> "t1:V1", o |-> 5, r |-> "V1", d |-> "d", n |-> "a", date |-> 0],
              [t |-> "t2:V1", o |-> 6, r |-> "V1", d |-> "top", n |-> "a", date |-> 1],
              [t |-> "home", o |-> 7, r |-> "R", d |-> "d", n |-> "a", date |-> 1]}
  /\ orph \in {{}, {[t |-> "t1:V1", o |-> 9]}}
  /\ strays = {} /\ junk = {}
  /\ clock = 7 /\ purged = {} /\ out = [cmd |-> "init"]
Next_Insecure ==
  \/ \E a \in {[class |-> "entry", r |-> "V1", d |-> "top", n |-> "b"], [class |-> "entry", r |-> "R", d |-> "d", n |-> "b"]} :
        Put(<<a>>, [force |-> FALSE, inter |-> "off", td |-> "none", hf |-> FALSE, hfenv |-> FALSE]) /\ Emit
  \/ List("none") /\ Emit
  \/ List("top:V1") /\ Emit
  \/ \E days \in {-1, 1}, dry \in BOOLEAN : Empty([days |-> days, dry |-> dry, consent |-> "auto", td |-> "top:V1"]) /\ Emit
  \/ \E f \in {[k |-> "root"], [k |-> "dir", r |-> "V1", d |-> "top"], [k |-> "dir", r |-> "V1", d |-> "d"]},
        sort \in {"date", "path", "none"},
        reply \in {[k |-> "idx", idx |-> <<0>>], [k |-> "idx", idx |-> <<1>>], [k |-> "idx", idx |-> <<2>>], [k |-> "idx", idx |-> <<0, 1>>], [k |-> "eof"]} :
        Restore(f, "none", sort, reply, FALSE) /\ Emit
  \/ \E days \in {-1, 0, 1}, dry \in BOOLEAN : Empty([days |-> days, dry |-> dry, consent |-> "auto", td |-> "none"]) /\ Emit
  \/ \E p \in {[k |-> "name", n |-> "a"], [k |-> "all"], [k |-> "path", r |-> "V1", d |-> "d", n |-> "a"]} : Rm(p) /\ Emit

\* trash-list --trash-dirs / --volumes on every state of $topdir/.Trash
Next_ListDirs == ListDirs(FALSE) /\ Emit

-----------------------------------------------------------------------------
(* --all-users: trash directories of two users on every state of $topdir/.Trash; what --all-users lists, reports and   *)
(* purges, and what the same commands WITHOUT --all-users (and trash-restore, trash-rm, trash-put) leave alone          *)

CfgsAll ==
  {[mounted |-> m, top |-> TopOn("V1", x), altfile |-> {}, xdg |-> xd, home |-> h, hlink |-> "none", kind |-> KindsFDLX] :
      m \in {{"R", "V1"}, {"R", "V1", "V2"}}, x \in TopStates \ {"file"}, xd \in {"unset", "empty"}, h \in {"set"}}
\* ($XDG_DATA_HOME set, or $HOME unset: the environment and the password database then name different home trash directories
\* for the invoking user; Trash.tla says which one the code takes (AllHome), no property does, so it is not generated)
Init_AllUsers ==
  /\ cfg \in CfgsAll
  /\ dirs = BaseDirs
  /\ live = {[r |-> "V1", d |-> "top", n |-> "b", o |-> 1], [r |-> "R", d |-> "d", n |-> "b", o |-> 2]}
  /\ LET hasTop == cfg.top["V1"] # "absent"
         lh     == cfg.xdg = "set" IN
     /\ tex = {"home", "ohome", "t2:V1", "o2:V1", "o2:R", "c:V1"} \cup (IF hasTop THEN {"t1:V1", "o1:V1"} ELSE {})
                 \cup (IF lh THEN {"lhome"} ELSE {})
     /\ \E dd \in {1, 6} :
          items = {i \in {[t |-> "home",  o |-> 5,  r |-> "R",  d |-> "d",   n |-> "a", date |-> 1],
                         [t |-> "lhome", o |-> 6,  r |-> "R",  d |-> "de",  n |-> "a", date |-> dd],
                         [t |-> "ohome", o |-> 7,  r |-> "R",  d |-> "top", n |-> "a", date |-> dd],
                         [t |-> "t1:V1", o |-> 8,  r |-> "V1", d |-> "d",   n |-> "a", date |-> 1],
                         [t |-> "o1:V1", o |-> 9,  r |-> "V1", d |-> "d",   n |-> "b", date |-> dd],
                         [t |-> "t2:V1", o |-> 10, r |-> "V1", d |-> "top", n |-> "a", date |-> 6],
                         [t |-> "o2:V1", o |-> 11, r |-> "V1", d |-> "de",  n |-> "a", date |-> 1],
                         [t |-> "o2:R",  o |-> 12, r |-> "R",  d |-> "de",  n |-> "b", date |-> dd],
                         [t |-> "c:V1",  o |-> 13, r |-> "V1", d |-> "de",  n |-> "b", date |-> 1]} : i.t \in tex}
     /\ orph \in {{}, {x \in {[t |-> "o1:V1", o |-> 14], [t |-> "ohome", o |-> 15]} : x.t \in tex}}
     /\ strays \in {{}, {[t |-> "o2:V1", id |-> 1, r |-> "V1", d |-> "d", n |-> "b", date |-> 1]}}
  /\ junk = {}
  /\ clock = 10 /\ purged = {} /\ out = [cmd |-> "init"]
Next_AllUsers ==
  \/ \E td \in {"all", "none"} : List(td) /\ Emit
  \/ \E all \in BOOLEAN : ListDirs(all) /\ Emit
  \/ \E days \in {-1, 0, 2}, dry \in BOOLEAN, td \in {"all", "none"}, consent \in {"auto", "no"} :
        \* (the dry run over an info without payload is the known deviation recorded under C14: not generated here)
        (consent = "no" => ~dry /\ days = -1) /\ (dry => strays = {}) /\ Empty([days |-> days, dry |-> dry, consent |-> consent, td |-> td]) /\ Emit
  \/ \E p \in {[k |-> "all"], [k |-> "name", n |-> "a"]} : Rm(p) /\ Emit
  \/ \E sort \in {"date"}, reply \in {[k |-> "idx", idx |-> <<0>>], [k |-> "idx", idx |-> <<3>>], [k |-> "eof"]} :
        Restore([k |-> "root"], "none", sort, reply, FALSE) /\ Emit
  \/ \E a \in {[class |-> "entry", r |-> "V1", d |-> "top", n |-> "b"], [class |-> "entry", r |-> "R", d |-> "d", n |-> "b"]} :
        Put(<<a>>, [force |-> FALSE, inter |-> "off", td |-> "none", hf |-> FALSE, hfenv |-> FALSE]) /\ Emit

-----------------------------------------------------------------------------
(* C10 / C14: trash-empty around the DAYS threshold; dry run; consent                *)

CfgsEmpty == {[mounted |-> {"R", "V1"}, top |-> TopOn("V1", x), altfile |-> {}, xdg |-> xd, home |-> "set", hlink |-> "none", kind |-> KindsFDLX] :
                 x \in {"absent", "sticky"}, xd \in {"set", "unset"}}
\* clock = 10; with DayTicks = 3 a day is 3 ticks: dates around now - days*3 for days in 0..3
DatePool == IF GenLevel >= 2 THEN {0, 1, 3, 4, 5, 6, 7, 8, 9, 10, 11, 12, NoDate} ELSE {0, 3, 4, 5, 7, 9, 10, 11, NoDate}
Init_Dates ==
  /\ cfg \in CfgsEmpty
  /\ dirs = BaseDirs /\ live = {[r |-> "R", d |-> "d", n |-> "a", o |-> 1]}
  /\ tex = {"home", "t2:V1", "c:V1", "c:R"}
  \* skel: one of the trash directories exists but holds nothing (the skeleton a put + purge leaves): it must stay as it is
  \* under --dry-run and after a negative answer
  /\ \E d1 \in DatePool, d2 \in (IF GenLevel >= 2 THEN DatePool ELSE {4, 7, NoDate}), d3 \in (IF GenLevel >= 2 THEN {1, 7, 10} ELSE {7}),
        skel \in {"none", "t2:V1", "c:V1", "all"}, wo \in BOOLEAN :
       \* skel = "all": no entry anywhere, only payloads without info (what a confirmation must still protect)
       /\ (skel = "all" => wo /\ d1 = 7 /\ d3 = 7)
       /\ items = {i \in {[t |-> "home", o |-> 5, r |-> "R", d |-> "d", n |-> "a", date |-> d1],
                            [t |-> "t2:V1", o |-> 6, r |-> "V1", d |-> "d", n |-> "b", date |-> d2],
                            [t |-> "home", o |-> 7, r |-> "R", d |-> "top", n |-> "a", date |-> d3],
                            [t |-> "c:V1", o |-> 8, r |-> "V1", d |-> "top", n |-> "a", date |-> d1],
                            [t |-> "c:R", o |-> 4, r |-> "R", d |-> "de", n |-> "b", date |-> d2]} : i.t # skel /\ skel # "all"}
       /\ (skel # "none" => d2 = 7)
       /\ orph = IF wo THEN {x \in {[t |-> "home", o |-> 9], [t |-> "t2:V1", o |-> 10]} : x.t # skel} ELSE {}
  /\ strays \in {{}, {[t |-> "home", id |-> 1, r |-> "R", d |-> "d", n |-> "b", date |-> 4]}}
  \* an info that cannot be read at all (a directory, a dangling link, binary) has no date either: kept under DAYS
  /\ junk \in {{}, {[t |-> "home", id |-> 2, kind |-> "nopath"]}}
  /\ clock = 10 /\ purged = {} /\ out = [cmd |-> "init"]
Next_EmptyDays ==
  \E days \in {-1, 0, 1, 2, 3}, td \in {"none", "V1", "V1+R"} :
     Empty([days |-> days, dry |-> FALSE, consent |-> "auto", td |-> td]) /\ Emit
\* trash-list restricted to one or several --trash-dir
Next_ListTd == \E td \in {"none", "V1", "R", "V1+R"} : List(td) /\ Emit
Next_EmptyConsent ==
  \E days \in {-1, 0, 1, 2}, dry \in BOOLEAN, consent \in {"auto", "yes", "no"}, td \in {"none", "V1", "V1+R"} :
     (dry \/ consent # "auto") /\ Empty([days |-> days, dry |-> dry, consent |-> consent, td |-> td]) /\ Emit

-----------------------------------------------------------------------------
(* C12: trash-rm patterns; C13: trash-restore scope, order and index sets             *)

\* occ: the original location of the first entry has been taken again since - by a symbolic link (trash-rm matches the
\* RECORDED name, whatever lives there now)
Init_ManyBase(occ) ==
  /\ cfg \in {[mounted |-> m, top |-> TopOn("V1", x), altfile |-> {}, xdg |-> "set", home |-> "set", hlink |-> "none", kind |-> KindsFDLX] :
                  m \in {{"R", "V1"}, {"R", "H", "V1"}, {"R", "V1", "V2"}}, x \in {"absent", "sticky"}}
  /\ dirs \in {BaseDirs, TopDirs \cup {[r |-> "R", d |-> "d"]}}
  /\ tex = {"home", "t2:V1"} \cup (IF cfg.top["V1"] = "sticky" THEN {"t1:V1"} ELSE {})
  /\ \E v \in 1 .. 4 :
     /\ items = CASE v = 4 -> \* the same original path trashed twice, into two different trash directories (home fallback, then the volume)
                             {[t |-> "home", o |-> 1, r |-> "V1", d |-> "d", n |-> "a", date |-> 1],
                              [t |-> "t2:V1", o |-> 3, r |-> "V1", d |-> "d", n |-> "a", date |-> 2],
                              [t |-> "t2:V1", o |-> 4, r |-> "V1", d |-> "top", n |-> "b", date |-> 0],
                              [t |-> "home", o |-> 2, r |-> "R", d |-> "d", n |-> "a", date |-> 3]}
                 [] v = 1 -> {[t |-> "home", o |-> 1, r |-> "R", d |-> "d", n |-> "a", date |-> 2],
                              [t |-> "home", o |-> 2, r |-> "R", d |-> "de", n |-> "a", date |-> 1],
                              [t |-> "t2:V1", o |-> 3, r |-> "V1", d |-> "d", n |-> "a", date |-> 1],
                              [t |-> "t2:V1", o |-> 4, r |-> "V1", d |-> "top", n |-> "b", date |-> 0]}
                 [] v = 2 -> {[t |-> "home", o |-> 1, r |-> "R", d |-> "top", n |-> "a", date |-> 0],
                              [t |-> "home", o |-> 2, r |-> "R", d |-> "top", n |-> "b", date |-> 3],
                              [t |-> (IF cfg.top["V1"] = "sticky" THEN "t1:V1" ELSE "t2:V1"), o |-> 3, r |-> "V1", d |-> "de", n |-> "b", date |-> 2]}
                 [] OTHER -> {[t |-> "home", o |-> 1, r |-> "R", d |-> "d", n |-> "a", date |-> 1],
                              [t |-> "home", o |-> 2, r |-> "R", d |-> "d", n |-> "b", date |-> 1],
                              [t |-> "t2:V1", o |-> 3, r |-> "V1", d |-> "d", n |-> "a", date |-> 1],
                              [t |-> "t2:V1", o |-> 6, r |-> "V1", d |-> "d", n |-> "b", date |-> 2]}
     /\ live = IF occ THEN {[r |-> i.r, d |-> i.d, n |-> i.n, o |-> 7] : i \in {x \in items : x.o = 1}} ELSE {}
     /\ (occ /\ v = 4 => dirs = BaseDirs)
  /\ orph = {} /\ junk = {}
  /\ strays \in {{}, {[t |-> "home", id |-> 1, r |-> "R", d |-> "d", n |-> "b", date |-> 4]}}
  /\ clock = 5 /\ purged = {} /\ out = [cmd |-> "init"]
Init_Many == Init_ManyBase(FALSE)
Init_ManyOcc == Init_ManyBase(TRUE)
Next_Rm == \E p \in PatSet : (p.k = "path" => p.r \in {"R", "V1"}) /\ Rm(p) /\ Emit
FromsAll == IF GenLevel >= 2
            THEN [k : {"root"}] \cup [k : {"dir"}, r : {"R", "V1", "H"}, d : Dirs] \cup [k : {"entry"}, r : {"R", "V1"}, d : {"d", "de"}, n : Names]
            ELSE {[k |-> "root"], [k |-> "dir", r |-> "R", d |-> "top"], [k |-> "dir", r |-> "R", d |-> "d"], [k |-> "dir", r |-> "V1", d |-> "d"],
                  [k |-> "dir", r |-> "V1", d |-> "de"], [k |-> "dir", r |-> "H", d |-> "top"], [k |-> "entry", r |-> "R", d |-> "d", n |-> "a"],
                  [k |-> "entry", r |-> "V1", d |-> "d", n |-> "b"]}
Next_RestoreSel ==
  \E f \in FromsAll, sort \in {"date", "path", "none"} :
    LET n == Cardinality(Offerable(cfg, St, f, "none")) IN
    \E reply \in [k : {"eof", "empty", "invalid"}] \cup {[k |-> "idx", idx |-> <<i>>] : i \in 0 .. n}
                  \cup (IF GenLevel >= 2 THEN {[k |-> "idx", idx |-> <<i, j>>] : i \in 0 .. n, j \in 0 .. n - 1}
                                        ELSE {[k |-> "idx", idx |-> <<0, 1>>], [k |-> "idx", idx |-> <<1, 0>>], [k |-> "idx", idx |-> <<0, n>>], [k |-> "idx", idx |-> <<1, 1>>]})
                  \cup {[k |-> "idx", idx |-> <<0, 1, 2>>], [k |-> "idx", idx |-> <<2, 1, 0>>]} :
      /\ (GenLevel >= 2 \/ n <= 3 \/ sort # "none")
      /\ (strays # {} => reply.k # "idx" \/ sort # "none")
      /\ Restore(f, "none", sort, reply, FALSE) /\ Emit

-----------------------------------------------------------------------------
(* C19: malformed neighbours                                                           *)

Init_Junk ==
  /\ cfg \in {[mounted |-> {"R", "V1"}, top |-> TopOn("V1", x), altfile |-> {}, xdg |-> "set", home |-> "set", hlink |-> "none", kind |-> KindsFDLX] : x \in {"absent", "sticky"}}
  /\ dirs = BaseDirs /\ live = {}
  /\ tex = {"home", "t2:V1"}
  /\ \E und \in BOOLEAN :
      items = {[t |-> "home", o |-> 1, r |-> "R", d |-> "d", n |-> "a", date |-> 2],
               [t |-> "home", o |-> 2, r |-> "R", d |-> "d", n |-> "b", date |-> 8],
               [t |-> "t2:V1", o |-> 3, r |-> "V1", d |-> "d", n |-> "a", date |-> 5]}
              \cup (IF und THEN {[t |-> "home", o |-> 5, r |-> "R", d |-> "top", n |-> "a", date |-> NoDate]} ELSE {})
  /\ junk \in SUBSET {[t |-> "home", id |-> 1, kind |-> "nopath"], [t |-> "home", id |-> 2, kind |-> "notinfo"], [t |-> "t2:V1", id |-> 3, kind |-> "nopath"]}
  /\ orph \in {{}, {[t |-> "home", o |-> 9]}}
  /\ strays \in {{}, {[t |-> "home", id |-> 1, r |-> "R", d |-> "d", n |-> "b", date |-> 4]}}
  /\ clock = 10 /\ purged = {} /\ out = [cmd |-> "init"]
Next_Junk ==
  \/ List("none") /\ Emit
  \/ \E sort \in {"date", "path", "none"}, reply \in {[k |-> "idx", idx |-> <<0>>], [k |-> "idx", idx |-> <<1>>], [k |-> "idx", idx |-> <<0, 2>>], [k |-> "eof"]},
        f \in {[k |-> "root"], [k |-> "dir", r |-> "R", d |-> "d"]} :
        (strays = {} \/ reply.k # "idx") /\ Restore(f, "none", sort, reply, FALSE) /\ Emit
  \/ \E days \in {-1, 0, 1, 2} : Empty([days |-> days, dry |-> FALSE, consent |-> "auto", td |-> "none"]) /\ Emit
  \/ \E p \in {[k |-> "name", n |-> "a"], [k |-> "all"], [k |-> "path", r |-> "R", d |-> "d", n |-> "b"], [k |-> "nomatch"]} : Rm(p) /\ Emit

Next_JunkMC ==
  \/ \E days \in {-1, 0, 1, 2} : Empty([days |-> days, dry |-> FALSE, consent |-> "auto", td |-> "none"])
  \/ \E p \in {[k |-> "name", n |-> "a"], [k |-> "all"]} : Rm(p)
  \/ List("none")

-----------------------------------------------------------------------------
(* C18: symbolic links as arguments                                                   *)

KindsLinks == [o \in Objs |-> IF o % 2 = 1 THEN "link" ELSE "dlink"]
LiveLinks == {[r |-> "R", d |-> "d", n |-> "a", o |-> 1], [r |-> "V1", d |-> "top", n |-> "a", o |-> 2],
              [r |-> "V1", d |-> "d", n |-> "b", o |-> 3], [r |-> "V2", d |-> "d", n |-> "a", o |-> 5],
              [r |-> "R", d |-> "top", n |-> "b", o |-> 7], [r |-> "H", d |-> "d", n |-> "b", o |-> 9]}
Init_Links ==
  \* af = {"V1"}: $topdir/.Trash-$uid of V1 is a regular file, so with .Trash absent only the home fallback (a copy across
  \* volumes) can take a link that lives on V1
  /\ cfg \in {[mounted |-> m, top |-> TopOn("V1", x), altfile |-> af, xdg |-> xd, home |-> "set", hlink |-> "none", kind |-> KindsLinks] :
                 m \in Layouts, x \in {"absent", "sticky"}, xd \in {"set", "unset"}, af \in {{}, {"V1"}}}
  /\ dirs = BaseDirs /\ live = LiveLinks /\ EmptyTrash
  /\ clock = 1 /\ purged = {} /\ out = [cmd |-> "init"]
Next_PutLink ==
  \E e \in LiveLinks, o \in {x \in PutOptsSet : x.td = "none" /\ ~x.force /\ x.inter \in {"off", "accept"} /\ (x.hf => x.hfenv)} :
     Put(<<[class |-> "entry", r |-> e.r, d |-> e.d, n |-> e.n]>>, o) /\ Emit

-----------------------------------------------------------------------------
(* C16: argument lists                                                                *)

LiveArgsL == {[r |-> "R", d |-> "d", n |-> "a", o |-> 1], [r |-> "V1", d |-> "top", n |-> "a", o |-> 2],
              [r |-> "V1", d |-> "d", n |-> "b", o |-> 3], [r |-> "R", d |-> "top", n |-> "b", o |-> 4]}
Init_PutList ==
  /\ cfg \in {[mounted |-> {"R", "V1"}, top |-> TopOn("V1", x), altfile |-> af, xdg |-> "set", home |-> "set", hlink |-> "none", kind |-> KindsFDLX] :
                  x \in {"absent", "sticky", "file"}, af \in {{}, {"V1"}}}
  /\ dirs = BaseDirs /\ live = LiveArgsL /\ EmptyTrash
  /\ clock = 1 /\ purged = {} /\ out = [cmd |-> "init"]
ArgsL == {[class |-> "entry", r |-> e.r, d |-> e.d, n |-> e.n] : e \in LiveArgsL}
         \cup {[class |-> "entry", r |-> "R", d |-> "d", n |-> "b"], [class |-> "dot", r |-> "R", d |-> "d"], [class |-> "mount", r |-> "V1"]}
OptsL == {o \in PutOptsSet : o.td = "none" /\ ~o.hf /\ ~o.hfenv /\ (o.inter # "off" => ~o.force) /\ o.inter # "decline"}
Next_Put2 == \E a, b \in ArgsL, o \in OptsL : Put(<<a, b>>, o) /\ Emit
Next_Put3 == \E a, b, c \in ArgsL, o \in OptsL : a # b /\ b # c /\ ~o.force /\ o.inter = "off" /\ Put(<<a, b, c>>, o) /\ Emit

=============================================================================

--------------------------------- MODULE Glob ---------------------------------
(***************************************************************************)
(* Layer F: case-sensitive shell-style matching of a whole string          *)
(* (sequences of code points): literals, "*" (any run, "/" included),      *)
(* "?" (exactly one character), "[set]", "[!set]" with ranges; a "["       *)
(* without a closing "]" is a literal.  trash-rm matches the base name, or *)
(* the full path when the pattern starts with "/".                         *)
(***************************************************************************)
EXTENDS Naturals, Integers, Sequences

Star == 42  Quest == 63  LBr == 91  RBr == 93  Bang == 33  Dash == 45  Slash == 47

\* position of the "]" that closes the bracket expression opened at i (0 if none); a "]" right after "[" or "[!" is a member
ClosePos(p, i) ==
  LET start == IF i + 1 <= Len(p) /\ p[i + 1] = Bang THEN i + 2 ELSE i + 1
      first == IF start <= Len(p) /\ p[start] = RBr THEN start + 1 ELSE start
      cands == {k \in first .. Len(p) : p[k] = RBr}
  IN IF cands = {} THEN 0 ELSE CHOOSE k \in cands : \A j \in cands : k <= j

\* does character c belong to the set written in p[from .. to] (ranges a-b)
RECURSIVE InSet(_, _, _, _)
InSet(p, from, to, c) ==
  IF from > to THEN FALSE
  ELSE IF from + 2 <= to /\ p[from + 1] = Dash
       THEN (p[from] <= c /\ c <= p[from + 2]) \/ InSet(p, from + 3, to, c)
       ELSE p[from] = c \/ InSet(p, from + 1, to, c)

RECURSIVE M(_, _, _, _)
M(p, i, s, j) ==
  IF i > Len(p) THEN j > Len(s)
  ELSE IF p[i] = Star THEN \E k \in j .. Len(s) + 1 : M(p, i + 1, s, k)
  ELSE IF j > Len(s) THEN FALSE
  ELSE IF p[i] = Quest THEN M(p, i + 1, s, j + 1)
  ELSE IF p[i] = LBr /\ ClosePos(p, i) # 0
       THEN LET close == ClosePos(p, i)
                neg == p[i + 1] = Bang
                from == IF neg THEN i + 2 ELSE i + 1
                inside == InSet(p, from, close - 1, s[j])
            IN (IF neg THEN ~inside ELSE inside) /\ M(p, close + 1, s, j + 1)
  ELSE p[i] = s[j] /\ M(p, i + 1, s, j + 1)

Match(p, s) == M(p, 1, s, 1)

BaseName(path) == LET idx == {i \in 1 .. Len(path) : path[i] = Slash}
                  IN IF idx = {} THEN path
                     ELSE SubSeq(path, (CHOOSE i \in idx : \A k \in idx : k <= i) + 1, Len(path))
RmSubject(pat, path) == IF pat # << >> /\ pat[1] = Slash THEN path ELSE BaseName(path)
RmMatches(pat, path) == Match(pat, RmSubject(pat, path))
=============================================================================

----------------------------- MODULE TrashTrace -----------------------------
(***************************************************************************)
(* Code -> specification: steps observed on the real commands are judged   *)
(* by TLC against the actions of Trash.tla.                                *)
(*                                                                         *)
(* The trace file (JSON) is a sequence of independent observed steps       *)
(*    [cfg, pre, lab, post]                                                *)
(* where pre/post are projections of the real sandbox before/after the     *)
(* real command and lab carries the abstract operation together with the   *)
(* outputs the command really produced (exit class, listing, printed       *)
(* paths).  A step is ACCEPTed iff the specification's action for lab.cmd  *)
(* is enabled in pre and has a successor equal to post whose outputs agree *)
(* with the observed ones.  Thousands of steps are validated per JVM       *)
(* start: the initial state chooses the step.                              *)
(***************************************************************************)
EXTENDS Trash, Json, IOUtils, TLCExt

Steps == JsonDeserialize(IOEnv.TRACE_FILE)

VARIABLES tid, phase
tvars == <<vars, tid, phase>>

SetOf(s) == {s[i] : i \in DOMAIN s}

CfgOf(j) == [mounted |-> SetOf(j.mounted), top |-> j.top, altfile |-> SetOf(j.altfile),
             xdg |-> j.xdg, home |-> j.home, hlink |-> j.hlink, kind |-> j.kind]
Loc4(x) == [r |-> x.r, d |-> x.d, n |-> x.n, o |-> x.o]
StateOf(j) ==
  [live   |-> {Loc4(x) : x \in SetOf(j.live)},
   dirs   |-> {[r |-> x.r, d |-> x.d] : x \in SetOf(j.dirs)},
   tex    |-> SetOf(j.tex),
   items  |-> {[t |-> x.t, o |-> x.o, r |-> x.r, d |-> x.d, n |-> x.n, date |-> x.date] : x \in SetOf(j.items)},
   orph   |-> {[t |-> x.t, o |-> x.o] : x \in SetOf(j.orph)},
   strays |-> {[t |-> x.t, id |-> x.id, r |-> x.r, d |-> x.d, n |-> x.n, date |-> x.date] : x \in SetOf(j.strays)},
   junk   |-> {[t |-> x.t, id |-> x.id, kind |-> x.kind] : x \in SetOf(j.junk)},
   clock  |-> j.clock,
   purged |-> {}]

\* the observed post-state does not know clock / purged: compare the rest
SameObservable(s, j, texSuper) ==
  LET p == StateOf(j) IN
  /\ s.live = p.live /\ s.dirs = p.dirs /\ s.items = p.items /\ s.orph = p.orph
  /\ s.strays = p.strays /\ s.junk = p.junk
  /\ IF texSuper THEN s.tex \subseteq p.tex ELSE s.tex = p.tex

SameButStrays(s, j) ==
  LET p == StateOf(j) IN
  /\ s.live = p.live /\ s.dirs = p.dirs /\ s.items = p.items /\ s.orph = p.orph
  /\ p.strays \subseteq s.strays /\ s.junk = p.junk /\ s.tex = p.tex

ExitOK(spec, obs) == spec = "any" \/ spec = obs

InitT ==
  /\ tid \in 1 .. Len(Steps)
  /\ phase = 0
  /\ cfg = CfgOf(Steps[tid].cfg)
  /\ LET s == StateOf(Steps[tid].pre) IN
       /\ live = s.live /\ dirs = s.dirs /\ tex = s.tex /\ items = s.items /\ orph = s.orph
       /\ strays = s.strays /\ junk = s.junk /\ clock = s.clock /\ purged = s.purged
  /\ out = [cmd |-> "init"]

ArgOf(a) == IF a.class = "entry" THEN [class |-> "entry", r |-> a.r, d |-> a.d, n |-> a.n]
            ELSE IF a.class = "dot" THEN [class |-> "dot", r |-> a.r, d |-> a.d]
            ELSE [class |-> "mount", r |-> a.r]

LineBagOK(specLines, obsLines) ==
  \* same bag of (date, location) records
  LET S == {[date |-> l.date, r |-> l.r, d |-> l.d, n |-> l.n] : l \in specLines}
      O == {[date |-> obsLines[i].date, r |-> obsLines[i].r, d |-> obsLines[i].d, n |-> obsLines[i].n] : i \in DOMAIN obsLines}
  IN /\ S = O
     /\ \A x \in S : Cardinality({l \in specLines : [date |-> l.date, r |-> l.r, d |-> l.d, n |-> l.n] = x})
                     = Cardinality({i \in DOMAIN obsLines : [date |-> obsLines[i].date, r |-> obsLines[i].r, d |-> obsLines[i].d, n |-> obsLines[i].n] = x})

StepPut(j) ==
  LET lab == j.lab
      args == [i \in DOMAIN lab.args |-> ArgOf(lab.args[i])]
      r == PutApply(cfg, St, args, lab.opts)
  IN /\ SameObservable(r.st, j.post, TRUE)
     /\ ExitOK(r.out.exit, lab.exit)
     /\ SetSt(r.st) /\ out' = r.out

StepList(j) ==
  LET lab == j.lab
      r == ListApply(cfg, St, lab.td)
  IN /\ SameObservable(r.st, j.post, FALSE)
     /\ ExitOK(r.out.exit, lab.exit)
     /\ LineBagOK(r.out.lines, lab.lines)
     /\ r.out.diag = SetOf(lab.diag)
     /\ SetSt(r.st) /\ out' = r.out

ReplyOf(x) == IF x.k = "idx" THEN [k |-> "idx", idx |-> x.idx] ELSE [k |-> x.k]
FromOf(f) == CASE f.k = "root" -> [k |-> "root"]
               [] f.k = "dir"  -> [k |-> "dir", r |-> f.r, d |-> f.d]
               [] OTHER        -> [k |-> "entry", r |-> f.r, d |-> f.d, n |-> f.n]

StepRestore(j) ==
  LET lab == j.lab
      f == FromOf(lab.from)
      off == Offerable(cfg, St, f, lab.td)
  IN \E ls \in SeqsNoRep(off) :
       /\ Len(ls) = Len(lab.listing)
       /\ \A i \in 1 .. Len(ls) : /\ ls[i].date = lab.listing[i].date /\ ls[i].r = lab.listing[i].r
                                  /\ ls[i].d = lab.listing[i].d /\ ls[i].n = lab.listing[i].n
       /\ IsListing(cfg, St, f, lab.td, lab.sort, ls)
       /\ LET r == RestoreApply(cfg, St, ls, ReplyOf(lab.reply), lab.ow) IN
            \* sundef (an info without payload was selected): the info file may be gone or not, nothing else may differ
            /\ \/ r.undef
               \/ r.sundef /\ SameButStrays(r.st, j.post)
               \/ ~r.sundef /\ SameObservable(r.st, j.post, FALSE) /\ ExitOK(r.out.exit, lab.exit)
            /\ SetSt(IF r.undef \/ r.sundef THEN StateOf(j.post) ELSE r.st) /\ out' = r.out

StepEmpty(j) ==
  LET lab == j.lab
      r == EmptyApply(cfg, St, lab.opts)
  IN /\ SameObservable(r.st, j.post, FALSE)
     /\ ExitOK(r.out.exit, lab.exit)
     /\ LET obsPrinted == {[t |-> x.t, part |-> x.part, ref |-> x.ref] : x \in SetOf(lab.printed)} IN
          obsPrinted = r.out.printed \/ obsPrinted = r.out.printedDev
     /\ SetSt(r.st) /\ out' = r.out

PatOf(p) == CASE p.k = "name" -> [k |-> "name", n |-> p.n]
              [] p.k = "path" -> [k |-> "path", r |-> p.r, d |-> p.d, n |-> p.n]
              [] OTHER        -> [k |-> p.k]
StepRm(j) ==
  LET lab == j.lab
      r == RmApply(cfg, St, PatOf(lab.pat))
  IN /\ SameObservable(r.st, j.post, FALSE)
     /\ ExitOK(r.out.exit, lab.exit)
     /\ SetSt(r.st) /\ out' = r.out

NextT ==
  /\ phase = 0 /\ phase' = 1 /\ tid' = tid /\ cfg' = cfg
  /\ LET j == Steps[tid] IN
       CASE j.lab.cmd = "put"     -> StepPut(j)
         [] j.lab.cmd = "list"    -> StepList(j)
         [] j.lab.cmd = "restore" -> StepRestore(j)
         [] j.lab.cmd = "empty"   -> StepEmpty(j)
         [] j.lab.cmd = "rm"      -> StepRm(j)
  \* the command-level invariants are evaluated on the observed post-state as part of acceptance
  /\ Conservation'
  /\ PrintT(<<"##ACCEPT", tid>>)

SpecT == InitT /\ [][NextT]_tvars
=============================================================================

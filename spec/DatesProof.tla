---------------------------- MODULE DatesProof ----------------------------
(***************************************************************************)
(* TLAPS proof, for every K > 0 and all naturals, of the lemma that        *)
(* Dates!EmbeddingLemma states (and TLC checks) for bounded ranges: the    *)
(* DAYS rule on clock ticks (Trash!Expired) is the calendar rule on        *)
(* (day, second-of-day) pairs under the embedding                          *)
(*   tick k = day (k div K), second (k mod K).                             *)
(***************************************************************************)
EXTENDS Dates, TLAPS

LEMMA DivMod == ASSUME NEW K \in Nat \ {0}, NEW a \in Nat
                PROVE /\ a \div K \in Nat /\ a % K \in 0 .. K - 1
                      /\ a = K * (a \div K) + (a % K)
  <1>1. a \div K \in Nat BY Z3
  <1>2. a % K \in 0 .. K - 1 BY Z3
  <1>3. a = K * (a \div K) + (a % K) BY Z3
  <1> QED BY <1>1, <1>2, <1>3

\* products with the unknown K, stated for the solver one at a time
LEMMA MulMono == ASSUME NEW K \in Nat \ {0}, NEW x \in Nat, NEW y \in Nat, x < y
                 PROVE K * x + K <= K * y
  <1>1. PICK d \in Nat : y = (x + 1) + d
    <2>1. y - (x + 1) \in Nat OBVIOUS
    <2>2. y = (x + 1) + (y - (x + 1)) OBVIOUS
    <2> QED BY <2>1, <2>2
  <1>2. K * ((x + 1) + d) = K * x + K + K * d OBVIOUS
  <1>3. K * d \in Nat OBVIOUS
  <1> QED BY <1>1, <1>2, <1>3

THEOREM Embedding ==
  ASSUME NEW K \in Nat \ {0}, NEW a \in Nat, NEW b \in Nat, NEW days \in Nat
  PROVE TickExpired(a, b, days, K) <=> EmbExpired(a, b, days, K)
  <1> DEFINE qa == a \div K  ra == a % K  qb == b \div K  rb == b % K
  <1>1. /\ qa \in Nat /\ ra \in 0 .. K - 1 /\ a = K * qa + ra BY DivMod
  <1>2. /\ qb \in Nat /\ rb \in 0 .. K - 1 /\ b = K * qb + rb BY DivMod
  <1>3. days * K = K * days OBVIOUS
  <1>4. K * (qa + days) = K * qa + K * days OBVIOUS
  <1> DEFINE s == qa + days
  <1>5. s \in Nat BY <1>1
  <1>6. a + days * K = K * s + ra BY <1>1, <1>3, <1>4
  <1>7. CASE s < qb
    <2>1. K * s + K <= K * qb BY <1>5, <1>2, <1>7, MulMono
    <2>2. K * s + ra < K * qb + rb BY <2>1, <1>1, <1>2
    <2> QED BY <2>2, <1>6, <1>2, <1>7 DEF TickExpired, EmbExpired
  <1>8. CASE s = qb
    <2>0. K * s = K * qb BY <1>8
    <2>a. K * qb \in Nat BY <1>2
    <2>b. ra \in Nat /\ rb \in Nat BY <1>1, <1>2
    <2>1. (K * s + ra < K * qb + rb) <=> ra < rb
      <3> HIDE DEF qa, ra, qb, rb, s
      <3> QED BY <2>0, <2>a, <2>b
    <2> QED BY <2>1, <1>6, <1>2, <1>8 DEF TickExpired, EmbExpired
  <1>9. CASE s > qb
    <2>1. K * qb + K <= K * s BY <1>5, <1>2, <1>9, MulMono
    <2>2. ~(K * s + ra < K * qb + rb) BY <2>1, <1>1, <1>2
    <2> QED BY <2>2, <1>6, <1>2, <1>9 DEF TickExpired, EmbExpired
  <1> QED BY <1>5, <1>2, <1>7, <1>8, <1>9
=============================================================================

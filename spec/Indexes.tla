-------------------------------- MODULE Indexes --------------------------------
(***************************************************************************)
(* Layer F: the reply grammar of trash-restore and the scope test.         *)
(* Denote(reply, n): the reply is a comma-separated list; a part that      *)
(* contains "-" must be exactly a-b with both sides index-like and denotes *)
(* the inclusive range (empty if reversed); any other part must be         *)
(* index-like (blanks, an optional "+", decimal digits, blanks).  If any   *)
(* part is malformed or any denoted index is outside 0..n-1 the whole      *)
(* reply is Invalid.                                                       *)
(***************************************************************************)
EXTENDS Naturals, Integers, Sequences, SequencesExt, FiniteSets

Invalid == <<-1>>
Comma == 44  Dash == 45  Plus == 43  Blank == 32
IsDigit(b) == b \in 48 .. 57

RECURSIVE SplitOn(_, _, _, _)
SplitOn(s, sep, i, cur) ==
  IF i > Len(s) THEN <<cur>>
  ELSE IF s[i] = sep THEN <<cur>> \o SplitOn(s, sep, i + 1, << >>)
  ELSE SplitOn(s, sep, i + 1, Append(cur, s[i]))

RECURSIVE LStrip(_)
LStrip(s) == IF s # << >> /\ s[1] = Blank THEN LStrip(Tail(s)) ELSE s
RECURSIVE RStrip(_)
RStrip(s) == IF s # << >> /\ s[Len(s)] = Blank THEN RStrip(SubSeq(s, 1, Len(s) - 1)) ELSE s
Strip(s) == RStrip(LStrip(s))

IntLike(t) == LET s == Strip(t)
                  u == IF s # << >> /\ s[1] = Plus THEN Tail(s) ELSE s
              IN u # << >> /\ \A i \in 1 .. Len(u) : IsDigit(u[i])
RECURSIVE DecVal(_, _)
DecVal(u, acc) == IF u = << >> THEN acc
                  ELSE DecVal(Tail(u), IF acc > 100000 THEN 100001 ELSE acc * 10 + (u[1] - 48))   \* saturating: huge = out of range
IntOf(t) == LET s == Strip(t)  u == IF s # << >> /\ s[1] = Plus THEN Tail(s) ELSE s IN DecVal(u, 0)

HasDash(t) == \E i \in 1 .. Len(t) : t[i] = Dash
PartOK(t) == IF HasDash(t)
             THEN LET sides == SplitOn(t, Dash, 1, << >>) IN
                  Len(sides) = 2 /\ sides[1] # << >> /\ sides[2] # << >> /\ IntLike(sides[1]) /\ IntLike(sides[2])
             ELSE IntLike(t)
RECURSIVE UpTo(_, _)
UpTo(a, b) == IF a > b THEN << >> ELSE <<a>> \o UpTo(a + 1, b)
PartIdx(t, n) == IF HasDash(t)
                 THEN LET sides == SplitOn(t, Dash, 1, << >>)
                          lo == IntOf(sides[1])  hi == IntOf(sides[2])
                      IN IF lo > hi THEN << >>
                         ELSE IF hi >= n \/ lo >= n THEN <<n>>        \* some index out of range (n is out of range itself)
                         ELSE UpTo(lo, hi)
                 ELSE <<IntOf(t)>>

Denote(reply, n) ==
  LET parts == SplitOn(reply, Comma, 1, << >>) IN
  IF \E k \in 1 .. Len(parts) : ~PartOK(parts[k]) THEN Invalid
  ELSE LET idx == FlattenSeq([k \in 1 .. Len(parts) |-> PartIdx(parts[k], n)]) IN
       IF \E j \in 1 .. Len(idx) : idx[j] >= n THEN Invalid ELSE idx

\* scope: location loc (code points of an absolute path) is dir itself or lies beneath it at a component boundary
InScope(loc, dir) ==
  \/ dir = <<47>>
  \/ loc = dir
  \/ (Len(loc) > Len(dir) /\ SubSeq(loc, 1, Len(dir)) = dir /\ loc[Len(dir) + 1] = 47)

\* --sort path: non-decreasing in the code-point order of the paths
RECURSIVE LexLeq(_, _)
LexLeq(a, b) == IF a = << >> THEN TRUE ELSE IF b = << >> THEN FALSE
                ELSE IF a[1] < b[1] THEN TRUE ELSE IF a[1] > b[1] THEN FALSE ELSE LexLeq(Tail(a), Tail(b))
=============================================================================

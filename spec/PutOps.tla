------------------------------- MODULE PutOps -------------------------------
(***************************************************************************)
(* Layer O: trash-put as a sequence of atomic file-system operations.      *)
(*                                                                         *)
(* N processes trash same-named entries; every process walks its ordered   *)
(* list of candidate trash directories; in a candidate it creates the      *)
(* directories (race tolerant), reserves a name by EXCLUSIVE creation of   *)
(* info/N.trashinfo after probing that files/N is free, writes the info,   *)
(* and only then moves the payload (one rename, or copy + delete when the  *)
(* home fallback crosses volumes).  Any operation may fail (Fault); a      *)
(* failed candidate is left clean and the next one is tried.               *)
(*                                                                         *)
(* One action per operation of the code (trashcli/put/janitor.py,          *)
(* info_file_persister.py, dir_maker.py, fs.py), so that operation traces  *)
(* recorded from the real processes can be validated against it            *)
(* (PutOpsTrace.tla), and every reachable state is a possible crash point  *)
(* (C05): the safety properties are plain invariants.                      *)
(*                                                                         *)
(* Mutant selects the design variants named in the properties' rationale;  *)
(* TLC must refute each of them (tools/selftest).                          *)
(***************************************************************************)
EXTENDS Naturals, Integers, Sequences, FiniteSets, TLC

CONSTANTS Procs,        \* set of process ids
          Cands,        \* sequence of candidate trash directories, e.g. <<"t1", "t2">>
          Slots,        \* sequence of names in suffix order: <<"n", "n_1", "n_2">>
          RandSlots,    \* names the random suffixes (index >= 100 in the code) may produce
          PreInfo,      \* set of <<t, slot>>: info files that exist beforehand (info without payload)
          PrePay,       \* set of <<t, slot>>: payloads that exist beforehand (payload without info)
          DirsExist,    \* set of candidates whose directories exist beforehand
          CopyCands,    \* candidates reached across volumes (home fallback): payload moved by copy + delete
          MaxFaults,    \* number of one-shot faults the environment may inject
          Sticky,       \* set of <<t, opkind>>: operations that fail every time (persistent error)
          TooLong,      \* slots whose <name>.trashinfo exceeds NAME_MAX: creating it fails with ENAMETOOLONG, which means
                        \* "go on with the next (from now on shortened) name"; the names after it in Slots are the shortened ones
          Mutant        \* "none" | "noprobe" | "nonexcl" | "chkmkdir" | "retryall" | "payfirst" | "nocleanup"

TDs == {Cands[i] : i \in 1 .. Len(Cands)}
AllSlots == {Slots[i] : i \in 1 .. Len(Slots)} \cup RandSlots
Parts == {"dir", "files", "info"}
OpKinds == {"mkdir", "create", "write", "close", "rename", "copy", "delsrc", "unlink"}

VARIABLES parts,     \* [TDs -> SUBSET Parts]
          info,      \* [TDs -> [AllSlots -> [st, owner]]]   st: "none" | "pre" | "empty" | "full"
          pay,       \* [TDs -> [AllSlots -> "none" | "pre" | [st, owner]]]   st: "partial" | "whole"
          src,       \* [Procs -> "present" | "partial" | "gone"]
          pc, cand, idx, slot, part,   \* per process: program counter, candidate index, suffix index, chosen slot, directory part
          res,       \* [Procs -> "run" | "ok" | "fail"]
          nfaults,   \* faults injected so far
          clobbered, \* a pre-existing or foreign payload / info was overwritten or merged into
          strayleft  \* a process gave up on a candidate and could not remove the info it had created (second fault)
vars == <<parts, info, pay, src, pc, cand, idx, slot, part, res, nfaults, clobbered, strayleft>>

\* slot contents are uniform records (TLC refuses to compare a string with a record)
NoneV == [st |-> "none", owner |-> "-"]
PreV  == [st |-> "pre", owner |-> "-"]
Own(st, p) == [st |-> st, owner |-> p]
IsOwned(x) == x.st \notin {"none", "pre"}

Init ==
  /\ parts = [t \in TDs |-> IF t \in DirsExist THEN Parts ELSE {}]
  /\ info = [t \in TDs |-> [s \in AllSlots |-> IF <<t, s>> \in PreInfo THEN PreV ELSE NoneV]]
  /\ pay  = [t \in TDs |-> [s \in AllSlots |-> IF <<t, s>> \in PrePay THEN PreV ELSE NoneV]]
  /\ src = [p \in Procs |-> "present"]
  /\ pc = [p \in Procs |-> "mkdir"] /\ cand = [p \in Procs |-> 1] /\ idx = [p \in Procs |-> 1]
  /\ slot = [p \in Procs |-> "none"] /\ part = [p \in Procs |-> "dir"]
  /\ res = [p \in Procs |-> "run"] /\ nfaults = 0 /\ clobbered = FALSE /\ strayleft = FALSE

T(p) == Cands[cand[p]]
NextPart(x) == CASE x = "dir" -> "files" [] x = "files" -> "info" [] OTHER -> "done"

\* does operation kind k of process p fail now?  (a persistent error, or one of the one-shot faults)
StickyFails(p, k) == <<T(p), k>> \in Sticky
MayFault == nfaults < MaxFaults

\* the candidate failed: try the next one, or report failure
GiveUp(p) ==
  IF cand[p] < Len(Cands)
  THEN /\ cand' = [cand EXCEPT ![p] = @ + 1] /\ pc' = [pc EXCEPT ![p] = "mkdir"]
       /\ idx' = [idx EXCEPT ![p] = 1] /\ slot' = [slot EXCEPT ![p] = "none"] /\ part' = [part EXCEPT ![p] = "dir"]
       /\ res' = res
  ELSE /\ pc' = [pc EXCEPT ![p] = "done"] /\ res' = [res EXCEPT ![p] = "fail"]
       /\ UNCHANGED <<cand, idx, slot, part>>

---------------------------------------------------------------------------
(* directory creation: os.makedirs + "on OSError accept if it is a directory"   *)

MkdirTry(p) ==
  /\ pc[p] = "mkdir"
  /\ IF Mutant = "chkmkdir"
     THEN \* check-then-create: look first, create only if absent, and treat a failing create as fatal
          /\ IF part[p] \in parts[T(p)]
             THEN /\ (IF NextPart(part[p]) = "done" THEN pc' = [pc EXCEPT ![p] = "probe"] /\ part' = part
                      ELSE part' = [part EXCEPT ![p] = NextPart(@)] /\ pc' = pc)
                  /\ UNCHANGED <<parts, cand, idx, slot, res>>
             ELSE pc' = [pc EXCEPT ![p] = "mkdir2"] /\ UNCHANGED <<parts, part, cand, idx, slot, res>>
          /\ UNCHANGED <<nfaults>>
     ELSE \/ /\ ~StickyFails(p, "mkdir")
             /\ IF part[p] \in parts[T(p)]
                THEN pc' = [pc EXCEPT ![p] = "isdir"] /\ parts' = parts                       \* EEXIST
                ELSE /\ parts' = [parts EXCEPT ![T(p)] = @ \cup {part[p]}]
                     /\ pc' = [pc EXCEPT ![p] = "mkdirdone"]
             /\ UNCHANGED <<part, cand, idx, slot, res, nfaults>>
          \/ /\ (StickyFails(p, "mkdir") \/ MayFault)                                          \* any other error
             /\ nfaults' = IF StickyFails(p, "mkdir") THEN nfaults ELSE nfaults + 1
             /\ GiveUp(p) /\ parts' = parts
  /\ UNCHANGED <<info, pay, src, clobbered, strayleft>>

\* the second half of the check-then-create mutant
Mkdir2(p) ==
  /\ pc[p] = "mkdir2"
  /\ IF part[p] \in parts[T(p)]
     THEN GiveUp(p) /\ parts' = parts                     \* somebody created it in between: mkdir raises, not tolerated
     ELSE /\ parts' = [parts EXCEPT ![T(p)] = @ \cup {part[p]}]
          /\ (IF NextPart(part[p]) = "done" THEN pc' = [pc EXCEPT ![p] = "probe"] /\ part' = part
              ELSE part' = [part EXCEPT ![p] = NextPart(@)] /\ pc' = [pc EXCEPT ![p] = "mkdir"])
          /\ UNCHANGED <<cand, idx, slot, res>>
  /\ UNCHANGED <<info, pay, src, nfaults, clobbered, strayleft>>

\* after EEXIST: isdir(path) -> fine
IsDir(p) ==
  /\ pc[p] = "isdir"
  /\ pc' = [pc EXCEPT ![p] = "mkdirdone"]
  /\ UNCHANGED <<parts, info, pay, src, cand, idx, slot, part, res, nfaults, clobbered, strayleft>>

MkdirDone(p) ==
  /\ pc[p] = "mkdirdone"
  /\ IF NextPart(part[p]) = "done"
     THEN pc' = [pc EXCEPT ![p] = "probe"] /\ part' = part
     ELSE part' = [part EXCEPT ![p] = NextPart(@)] /\ pc' = [pc EXCEPT ![p] = "mkdir"]
  /\ UNCHANGED <<parts, info, pay, src, cand, idx, slot, res, nfaults, clobbered, strayleft>>

---------------------------------------------------------------------------
(* name reservation: probe files/N, exclusive create of info/N.trashinfo, write, close *)

\* the names index i can stand for
SlotChoices(i) == IF i <= Len(Slots) THEN {Slots[i]} ELSE RandSlots

Probe(p) ==
  /\ pc[p] = "probe"
  /\ \E s \in SlotChoices(idx[p]) :
       IF pay[T(p)][s] # NoneV /\ Mutant # "noprobe"
       THEN /\ idx' = [idx EXCEPT ![p] = IF @ <= Len(Slots) THEN @ + 1 ELSE @]          \* taken: next suffix
            /\ UNCHANGED <<pc, slot>>
       ELSE /\ slot' = [slot EXCEPT ![p] = s] /\ pc' = [pc EXCEPT ![p] = "create"] /\ idx' = idx
  /\ UNCHANGED <<parts, info, pay, src, cand, part, res, nfaults, clobbered, strayleft>>

CreateExcl(p) ==
  /\ pc[p] = "create"
  /\ LET t == T(p)  s == slot[p] IN
     \/ /\ ~StickyFails(p, "create") /\ s \in TooLong                                    \* ENAMETOOLONG: shorten and go on
        /\ idx' = [idx EXCEPT ![p] = IF @ <= Len(Slots) THEN @ + 1 ELSE @]
        /\ pc' = [pc EXCEPT ![p] = "probe"] /\ nfaults' = nfaults
        /\ UNCHANGED <<info, clobbered, cand, slot, part, res>>
     \/ /\ ~StickyFails(p, "create") /\ s \notin TooLong
        /\ IF info[t][s] = NoneV \/ Mutant = "nonexcl"
           THEN /\ clobbered' = (clobbered \/ info[t][s] # NoneV)                       \* a non-exclusive create truncates
                /\ info' = [info EXCEPT ![t][s] = Own("empty", p)]
                /\ pc' = [pc EXCEPT ![p] = IF Mutant = "payfirst" THEN "move" ELSE "write"]
                /\ UNCHANGED <<idx, cand, slot, part, res>>
           ELSE /\ idx' = [idx EXCEPT ![p] = IF @ <= Len(Slots) THEN @ + 1 ELSE @]      \* EEXIST: the name is taken
                /\ pc' = [pc EXCEPT ![p] = "probe"]
                /\ UNCHANGED <<info, clobbered, cand, slot, part, res>>
        /\ nfaults' = nfaults
     \/ /\ (StickyFails(p, "create") \/ MayFault)                                         \* EACCES, EROFS, ENOSPC, EIO ...
        /\ nfaults' = IF StickyFails(p, "create") THEN nfaults ELSE nfaults + 1
        /\ IF Mutant = "retryall"
           THEN /\ idx' = [idx EXCEPT ![p] = IF @ <= Len(Slots) THEN @ + 1 ELSE @]      \* "every error means: try another name"
                /\ pc' = [pc EXCEPT ![p] = "probe"] /\ UNCHANGED <<cand, slot, part, res>>
           ELSE GiveUp(p)
        /\ UNCHANGED <<info, clobbered>>
  /\ UNCHANGED <<parts, pay, src, strayleft>>

\* os.write may store only a part of the content and say so (quota, file-size limit, a nearly full disk): the loop
\* goes on; the info file is still incomplete ("empty" stands for "created, not complete yet")
WritePart(p) ==
  /\ pc[p] = "write" /\ ~StickyFails(p, "write")
  /\ UNCHANGED vars

\* the os.write that completes the content
Write(p) ==
  /\ pc[p] = "write"
  /\ LET t == T(p)  s == slot[p] IN
     \/ /\ ~StickyFails(p, "write")
        /\ info' = [info EXCEPT ![t][s] = Own("full", p)]
        /\ pc' = [pc EXCEPT ![p] = "close"] /\ nfaults' = nfaults
     \/ /\ (StickyFails(p, "write") \/ MayFault)
        /\ nfaults' = IF StickyFails(p, "write") THEN nfaults ELSE nfaults + 1
        /\ pc' = [pc EXCEPT ![p] = "cleanup"] /\ info' = info
  /\ UNCHANGED <<parts, pay, src, cand, idx, slot, part, res, clobbered, strayleft>>

Close(p) ==
  /\ pc[p] = "close"
  /\ \/ /\ ~StickyFails(p, "close") /\ pc' = [pc EXCEPT ![p] = IF Mutant = "payfirst" THEN "finish" ELSE "move"] /\ nfaults' = nfaults
     \/ /\ (StickyFails(p, "close") \/ MayFault)
        /\ nfaults' = IF StickyFails(p, "close") THEN nfaults ELSE nfaults + 1
        /\ pc' = [pc EXCEPT ![p] = "cleanup"]
  /\ UNCHANGED <<parts, info, pay, src, cand, idx, slot, part, res, clobbered, strayleft>>

---------------------------------------------------------------------------
(* moving the payload: one rename, or copy + delete across volumes                *)

Move(p) ==
  /\ pc[p] = "move"
  /\ LET t == T(p)  s == slot[p] IN
     IF t \in CopyCands
     THEN \* rename fails with EXDEV: start copying
          /\ pc' = [pc EXCEPT ![p] = "copy"] /\ UNCHANGED <<pay, src, nfaults, clobbered>>
     ELSE \/ /\ ~StickyFails(p, "rename")
             /\ clobbered' = (clobbered \/ pay[t][s] # NoneV)
             /\ pay' = [pay EXCEPT ![t][s] = Own("whole", p)]
             /\ src' = [src EXCEPT ![p] = "gone"]
             /\ pc' = [pc EXCEPT ![p] = IF Mutant = "payfirst" THEN "write" ELSE "finish"] /\ nfaults' = nfaults
          \/ /\ (StickyFails(p, "rename") \/ MayFault)
             /\ nfaults' = IF StickyFails(p, "rename") THEN nfaults ELSE nfaults + 1
             /\ pc' = [pc EXCEPT ![p] = "cleanup"] /\ UNCHANGED <<pay, src, clobbered>>
  /\ UNCHANGED <<parts, info, cand, idx, slot, part, res, strayleft>>

\* copy: the payload appears under files/ in two steps (partial, whole); the source stays complete
Copy(p) ==
  /\ pc[p] = "copy"
  /\ LET t == T(p)  s == slot[p] IN
     \/ /\ ~StickyFails(p, "copy")
        /\ IF pay[t][s] = NoneV
           THEN pay' = [pay EXCEPT ![t][s] = Own("partial", p)] /\ pc' = pc /\ clobbered' = clobbered
           ELSE IF IsOwned(pay[t][s]) /\ pay[t][s].owner = p /\ pay[t][s].st = "partial"
                THEN pay' = [pay EXCEPT ![t][s] = Own("whole", p)] /\ pc' = [pc EXCEPT ![p] = "delsrc"] /\ clobbered' = clobbered
                ELSE pay' = pay /\ clobbered' = TRUE /\ pc' = [pc EXCEPT ![p] = "delsrc"]
        /\ nfaults' = nfaults /\ src' = src
     \/ /\ (StickyFails(p, "copy") \/ MayFault)                       \* a failed copy removes what it had copied (shutil semantics are modelled by uncopy)
        /\ nfaults' = IF StickyFails(p, "copy") THEN nfaults ELSE nfaults + 1
        /\ pc' = [pc EXCEPT ![p] = "uncopy"] /\ UNCHANGED <<pay, src, clobbered>>
  /\ UNCHANGED <<parts, info, cand, idx, slot, part, res, strayleft>>

\* a partial copy is NOT removed by shutil.move: it stays under files/ (with its info removed by cleanup it would be an orphan).
\* The design requires the partial copy to be removed before the info.
Uncopy(p) ==
  /\ pc[p] = "uncopy"
  /\ LET t == T(p)  s == slot[p] IN
       pay' = [pay EXCEPT ![t][s] = IF IsOwned(@) /\ @.owner = p THEN NoneV ELSE @]
  /\ pc' = [pc EXCEPT ![p] = "cleanup"]
  /\ UNCHANGED <<parts, info, src, cand, idx, slot, part, res, nfaults, clobbered, strayleft>>

\* delete the source after a complete copy (two steps for a tree: partial, gone)
DelSrc(p) ==
  /\ pc[p] = "delsrc"
  /\ \/ /\ ~StickyFails(p, "delsrc")
        /\ IF src[p] = "present" THEN src' = [src EXCEPT ![p] = "partial"] /\ pc' = pc
           ELSE src' = [src EXCEPT ![p] = "gone"] /\ pc' = [pc EXCEPT ![p] = "finish"]
        /\ nfaults' = nfaults
     \/ /\ (StickyFails(p, "delsrc") \/ MayFault) /\ src[p] = "present"     \* cannot delete the source at all: undo the copy
        /\ nfaults' = IF StickyFails(p, "delsrc") THEN nfaults ELSE nfaults + 1
        /\ pc' = [pc EXCEPT ![p] = "uncopy"] /\ src' = src
  /\ UNCHANGED <<parts, info, pay, cand, idx, slot, part, res, clobbered, strayleft>>

\* the candidate failed after the info was created: remove the info again, then give up on the candidate
Cleanup(p) ==
  /\ pc[p] = "cleanup"
  /\ LET t == T(p)  s == slot[p] IN
     IF Mutant = "nocleanup"
     THEN /\ GiveUp(p) /\ UNCHANGED <<info, nfaults, strayleft>>      \* the mutant simply forgets the info
     ELSE \/ /\ ~StickyFails(p, "unlink")
             /\ info' = [info EXCEPT ![t][s] = IF IsOwned(@) /\ @.owner = p THEN NoneV ELSE @]
             /\ GiveUp(p) /\ UNCHANGED <<nfaults, strayleft>>
          \/ /\ (StickyFails(p, "unlink") \/ MayFault)               \* a second fault: the info cannot be removed
             /\ nfaults' = IF StickyFails(p, "unlink") THEN nfaults ELSE nfaults + 1
             /\ strayleft' = TRUE /\ GiveUp(p) /\ info' = info
  /\ UNCHANGED <<parts, pay, src, clobbered>>

Finish(p) ==
  /\ pc[p] = "finish"
  /\ pc' = [pc EXCEPT ![p] = "done"] /\ res' = [res EXCEPT ![p] = "ok"]
  /\ UNCHANGED <<parts, info, pay, src, cand, idx, slot, part, nfaults, clobbered, strayleft>>

Step(p) == MkdirTry(p) \/ Mkdir2(p) \/ IsDir(p) \/ MkdirDone(p) \/ Probe(p) \/ CreateExcl(p) \/ WritePart(p) \/ Write(p) \/ Close(p)
           \/ Move(p) \/ Copy(p) \/ Uncopy(p) \/ DelSrc(p) \/ Cleanup(p) \/ Finish(p)
Next == \E p \in Procs : Step(p)
Spec == Init /\ [][Next]_vars /\ \A p \in Procs : WF_vars(Step(p))

---------------------------------------------------------------------------
(* Properties                                                                      *)

TypeOK ==
  /\ \A t \in TDs : parts[t] \subseteq Parts
  /\ \A p \in Procs : src[p] \in {"present", "partial", "gone"} /\ res[p] \in {"run", "ok", "fail"} /\ cand[p] \in 1 .. Len(Cands)

\* C04: nothing that existed before, and nothing another process owns, is ever overwritten or merged into
NoOverwrite == ~clobbered
\* C04: a slot's payload and info never belong to different processes
UniqueOwnership ==
  \A t \in TDs, s \in AllSlots :
     IsOwned(pay[t][s]) => IsOwned(info[t][s]) /\ info[t][s].owner = pay[t][s].owner
\* C05: every payload under files/ has its info present and complete (in EVERY reachable state = at every crash point)
InfoBeforePayload ==
  \A t \in TDs, s \in AllSlots :
     IsOwned(pay[t][s]) => IsOwned(info[t][s]) /\ info[t][s].st = "full"
\* C05: each entry is complete at its original place or complete under files/ of a trash directory
PaySlots(p) == {<<t, s>> \in TDs \X AllSlots : IsOwned(pay[t][s]) /\ pay[t][s].owner = p}
NothingLost ==
  \A p \in Procs :
     \/ src[p] = "present"
     \/ \E ts \in PaySlots(p) : pay[ts[1]][ts[2]].st = "whole"
\* the entry is never whole in two trash directories, never partly in each at rest
AtRest(p) == pc[p] = "done"
\* C01 / C04 / C17: when a process is done, its entry is fully trashed in exactly one slot, or untouched with nothing left behind
DoneOK(p) ==
  AtRest(p) =>
    \/ /\ res[p] = "ok" /\ src[p] = "gone" /\ Cardinality(PaySlots(p)) = 1
       /\ \A ts \in PaySlots(p) : pay[ts[1]][ts[2]].st = "whole" /\ info[ts[1]][ts[2]] = Own("full", p)
       /\ (strayleft \/ \A t \in TDs, s \in AllSlots : (IsOwned(info[t][s]) /\ info[t][s].owner = p) => <<t, s>> \in PaySlots(p))
    \/ /\ res[p] = "fail" /\ src[p] = "present" /\ PaySlots(p) = {}
       /\ (strayleft \/ \A t \in TDs, s \in AllSlots : ~(IsOwned(info[t][s]) /\ info[t][s].owner = p))
FinalStateIsC01 == \A p \in Procs : DoneOK(p)
\* C04: without faults every process succeeds
AllSucceed == (MaxFaults = 0 /\ Sticky = {}) => \A p \in Procs : AtRest(p) => res[p] = "ok"
\* pre-existing entries are still there, untouched
PreKept == /\ \A ts \in PreInfo : info[ts[1]][ts[2]] = PreV
           /\ \A ts \in PrePay : pay[ts[1]][ts[2]] = PreV
\* C17: every process terminates (also under persistent errors)
Termination == <>(\A p \in Procs : pc[p] = "done")
=============================================================================

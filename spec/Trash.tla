------------------------------- MODULE Trash -------------------------------
(***************************************************************************)
(* Layer C: trash-cli at the level of whole commands.                      *)
(*                                                                         *)
(* The trash is abstract state shared by the five commands.  One atomic    *)
(* action per command invocation; every action is defined through a pure   *)
(* operator  X_Apply(S, args)  on state records, so that the same          *)
(* definitions serve exhaustive checking, behaviour generation, trace      *)
(* validation (TrashTrace.tla) and the "what if" comparisons used by the   *)
(* frame / isolation properties.                                           *)
(*                                                                         *)
(* The world: a sandbox root with REGIONS (sub-trees).  A region that is   *)
(* mounted is a volume; an unmounted region is an ordinary directory of    *)
(* the enclosing volume.  Each region has directory slots, each slot can   *)
(* hold entries named by abstract base names.  Objects are opaque          *)
(* identities (the harness recognises them by a digest of bytes, tree,     *)
(* link target, modes and mtimes).                                         *)
(***************************************************************************)
EXTENDS Naturals, Integers, Sequences, FiniteSets, TLC

CONSTANTS MaxObj,      \* objects are 1..MaxObj
          MaxClock,    \* clock runs 0..MaxClock
          DayTicks     \* clock ticks per day (see Dates.tla: monotone embedding)

Regions == {"R", "H", "V1", "V2"}
RParent == [r \in Regions |-> CASE r = "R"  -> "-"
                                [] r = "H"  -> "R"
                                [] r = "V1" -> "R"
                                [] r = "V2" -> "V1"]
\* path (sequence of components, relative to the sandbox root) of a region's top
RPath == [r \in Regions |-> CASE r = "R"  -> <<>>
                              [] r = "H"  -> <<"home">>
                              [] r = "V1" -> <<"m1">>
                              [] r = "V2" -> <<"m1", "n2">>]
Dirs  == {"top", "d", "de"}
DPath == [d \in Dirs |-> CASE d = "top" -> <<>> [] d = "d" -> <<"d">> [] d = "de" -> <<"d", "e">>]
DAnc  == [d \in Dirs |-> CASE d = "top" -> {} [] d = "d" -> {"d"} [] d = "de" -> {"d", "de"}]
Names == {"a", "b"}
Objs  == 1 .. MaxObj
Kinds == {"file", "dir", "link", "dlink"}   \* dlink: a symbolic link whose target does not exist
NoDate == -1
TopStates == {"absent", "sticky", "nonsticky", "linksticky", "linknonsticky", "file"}

T1(v) == "t1:" \o v
T2(v) == "t2:" \o v
TC(r) == "c:" \o r
\* A second user ("the other user", uid2) and --all-users.  Directories of the other user: "ohome" (the Trash under the home
\* directory the password database records for uid2), O1(v) = $topdir/.Trash/$uid2, O2(v) = $topdir/.Trash-$uid2.  "lhome" is
\* $HOME/.local/share/Trash of the invoking user WHEN $XDG_DATA_HOME points elsewhere: --all-users takes every user's home
\* trash from the home directory of the password database, not from the environment.  Only trash-list / trash-empty with
\* --all-users ever look at these four kinds; trash-put never writes there and the other commands never read there.
O1(v) == "o1:" \o v
O2(v) == "o2:" \o v
TDirs == {"home"} \cup {T1(v) : v \in Regions} \cup {T2(v) : v \in Regions} \cup {TC(r) : r \in Regions}
         \cup {"lhome", "ohome"} \cup {O1(v) : v \in Regions} \cup {O2(v) : v \in Regions}
\* constant-level lookup tables (TLC evaluates them once)
TKindF == [t \in TDirs |-> IF t \in {"home", "lhome", "ohome"} THEN t
                           ELSE IF t \in {T1(v) : v \in Regions} THEN "t1"
                           ELSE IF t \in {T2(v) : v \in Regions} THEN "t2"
                           ELSE IF t \in {O1(v) : v \in Regions} THEN "o1"
                           ELSE IF t \in {O2(v) : v \in Regions} THEN "o2" ELSE "c"]
TRegF  == [t \in TDirs |-> IF t \in {"home", "lhome"} THEN "H" ELSE IF t = "ohome" THEN "R"
                           ELSE CHOOSE r \in Regions : t \in {T1(r), T2(r), TC(r), O1(r), O2(r)}]
TKind(t) == TKindF[t]
TReg(t)  == TRegF[t]

VARIABLES cfg,      \* static configuration, chosen by Init (see CfgOK)
          live,     \* set of [r, d, n, o]: entries in place
          dirs,     \* set of [r, d]: directory slots that exist ("top" always does)
          tex,      \* set of trash directories that exist on disk
          items,    \* set of [t, o, r, d, n, date]: payload + info, meaning "o was at (r,d,n), trashed at date"
          orph,     \* set of [t, o]: payload without info
          strays,   \* set of [t, id, r, d, n, date]: info without payload
          junk,     \* set of [t, id, kind]: malformed neighbours (no usable Path / not a .trashinfo)
          clock,
          purged,   \* objects destroyed by empty / rm / overwrite
          out       \* observable result of the last command
svars == <<live, dirs, tex, items, orph, strays, junk, clock, purged>>
vars  == <<cfg, svars, out>>

St == [live |-> live, dirs |-> dirs, tex |-> tex, items |-> items, orph |-> orph,
       strays |-> strays, junk |-> junk, clock |-> clock, purged |-> purged]
SetSt(s) == /\ live' = s.live /\ dirs' = s.dirs /\ tex' = s.tex /\ items' = s.items
            /\ orph' = s.orph /\ strays' = s.strays /\ junk' = s.junk
            /\ clock' = s.clock /\ purged' = s.purged

-----------------------------------------------------------------------------
(* Configuration and volumes                                               *)

CfgOK(c) ==
  /\ c.mounted \subseteq Regions /\ "R" \in c.mounted
  /\ ("V2" \in c.mounted => "V1" \in c.mounted)      \* nested mount needs its parent (keeps layouts few)
  /\ c.top \in [Regions -> TopStates]
  /\ c.altfile \subseteq Regions                     \* .Trash-$uid is a regular file
  /\ c.xdg \in {"set", "unset", "empty"}
  /\ c.home \in {"set", "unset"}
  /\ c.hlink \in {"none"} \cup Regions            \* $XDG_DATA_HOME is a symlink into this region (another volume, maybe)
  /\ (c.hlink # "none" => c.xdg = "set")
  /\ c.kind \in [Objs -> Kinds]

\* the volume (mounted region) a region belongs to
RECURSIVE VolOfR(_, _)
VolOfR(c, r) == IF r \in c.mounted THEN r ELSE VolOfR(c, RParent[r])
VolOf(r) == VolOfR(cfg, r)

HomeAvail(c) == c.xdg = "set" \/ c.home = "set"     \* XDG_DATA_HOME empty counts as unset
\* the volume the home trash directory REALLY lives on (after resolving symlinked ancestors)
HomeVol(c) == IF c.hlink = "none" THEN VolOfR(c, "H") ELSE VolOfR(c, c.hlink)
TDirVol(c, t) == IF t = "home" THEN HomeVol(c) ELSE VolOfR(c, TReg(t))
TopSecure(c, v) == c.top[v] = "sticky"

AbsPath(r, d, n) == RPath[r] \o DPath[d] \o <<n>>
DirPathOf(r, d)  == RPath[r] \o DPath[d]
IsPrefixSeq(p, q) == Len(p) <= Len(q) /\ \A i \in 1 .. Len(p) : p[i] = q[i]

-----------------------------------------------------------------------------
(* trash-put                                                               *)

PutOptsSet == [force : BOOLEAN, inter : {"off", "accept", "decline"},
               td : {"none"} \cup Regions, hf : BOOLEAN, hfenv : BOOLEAN]
ArgSet == [class : {"entry"}, r : Regions, d : Dirs, n : Names]
          \cup [class : {"dot"}, r : Regions, d : Dirs]        \* ".", "..", "./", "d/." ... of a directory slot
          \cup [class : {"mount"}, r : Regions]                \* a mount point itself

EntryAt(s, r, d, n) == {e \in s.live : e.r = r /\ e.d = d /\ e.n = n}

\* ordered candidate list: <<[t, gate, check]>>
Candidates(c, fv, o) ==
  IF o.td # "none"
    THEN << [t |-> TC(o.td), gate |-> "same", check |-> FALSE] >>
    ELSE (IF HomeAvail(c) THEN << [t |-> "home", gate |-> "same", check |-> FALSE] >> ELSE << >>)
         \o << [t |-> T1(fv), gate |-> "same", check |-> TRUE],
               [t |-> T2(fv), gate |-> "same", check |-> FALSE] >>
         \o (IF o.hf /\ HomeAvail(c) THEN << [t |-> "home", gate |-> "fallback", check |-> FALSE] >> ELSE << >>)

Accepts(c, cand, fv, o) ==
  /\ cand.check => TopSecure(c, fv)
  /\ cand.gate = "same"     => TDirVol(c, cand.t) = fv
  /\ cand.gate = "fallback" => o.hfenv
  /\ TKind(cand.t) = "t2"   => TReg(cand.t) \notin c.altfile

ChosenDir(c, fv, o) ==
  LET cs == Candidates(c, fv, o)
      ok == {i \in 1 .. Len(cs) : Accepts(c, cs[i], fv, o)}
  IN IF ok = {} THEN "none" ELSE cs[CHOOSE i \in ok : \A j \in ok : i <= j].t

\* outcome class of one argument in state s
PutOutcome(c, s, a, o) ==
  IF a.class = "dot" THEN "failed"                       \* refused before anything else
  ELSE IF a.class = "mount" THEN (IF o.inter = "decline" THEN "skipped" ELSE "failed")
  ELSE LET es == EntryAt(s, a.r, a.d, a.n) IN
       IF es = {} THEN (IF o.force THEN "skipped" ELSE "failed")
       \* -i asks only about entries it can access: a dangling link is trashed without a question
       ELSE IF o.inter = "decline" /\ \E e \in es : c.kind[e.o] # "dlink" THEN "skipped"
       ELSE IF ChosenDir(c, VolOfR(c, a.r), o) = "none" THEN "failed"
       ELSE "trashed"

PutArgApply(c, s, a, o) ==
  LET oc == PutOutcome(c, s, a, o) IN
  IF oc # "trashed" THEN [st |-> s, oc |-> oc]
  ELSE LET e == CHOOSE x \in EntryAt(s, a.r, a.d, a.n) : TRUE
           t == ChosenDir(c, VolOfR(c, a.r), o)
       IN [st |-> [s EXCEPT !.live  = @ \ {e},
                            !.tex   = @ \cup {t},
                            !.items = @ \cup {[t |-> t, o |-> e.o, r |-> a.r, d |-> a.d, n |-> a.n, date |-> s.clock]}],
           oc |-> oc]

RECURSIVE PutFold(_, _, _, _, _)
PutFold(c, s, args, o, ocs) ==
  IF args = << >> THEN [st |-> s, ocs |-> ocs]
  ELSE LET r == PutArgApply(c, s, Head(args), o)
       IN PutFold(c, r.st, Tail(args), o, Append(ocs, r.oc))

PutApply(c, s, args, o) ==
  LET r == PutFold(c, s, args, o, << >>) IN
  [st  |-> r.st,
   out |-> [cmd |-> "put", args |-> args, opts |-> o, ocs |-> r.ocs,
            exit |-> IF \E i \in 1 .. Len(r.ocs) : r.ocs[i] = "failed" THEN "fail" ELSE "ok"]]

Put(args, o) ==
  LET r == PutApply(cfg, St, args, o) IN SetSt(r.st) /\ out' = r.out /\ UNCHANGED cfg

-----------------------------------------------------------------------------
(* Which trash directories the reading commands use                         *)

ReadUsable(c, s, t) ==
  CASE TKind(t) = "home" -> HomeAvail(c)
    [] TKind(t) = "t1"   -> TReg(t) \in c.mounted /\ TopSecure(c, TReg(t)) /\ t \in s.tex
    [] TKind(t) = "t2"   -> TReg(t) \in c.mounted /\ t \in s.tex
    [] OTHER             -> FALSE
\* --all-users: the home trash of every user of the password database (by its home directory there: for the invoking user
\* that is "home" unless $XDG_DATA_HOME is set, "lhome" then), and on every volume $topdir/.Trash/$u (same checks of
\* $topdir/.Trash as for oneself) and $topdir/.Trash-$u of every user u
AllHome(c) == IF c.xdg = "set" THEN "lhome" ELSE "home"
ReadUsableAll(c, s, t) ==
  CASE t \in {AllHome(c), "ohome"}   -> TRUE
    [] TKind(t) \in {"t1", "o1"}     -> TReg(t) \in c.mounted /\ TopSecure(c, TReg(t)) /\ t \in s.tex
    [] TKind(t) \in {"t2", "o2"}     -> TReg(t) \in c.mounted /\ t \in s.tex
    [] OTHER                        -> FALSE
\* --trash-dir may be given several times to trash-list and trash-empty: "V1+R" stands for the custom directories of both
TdRegions(td) == IF td = "V1+R" THEN {"V1", "R"} ELSE {td}
\* "top:V1": --trash-dir names the top directory of the volume V1 itself - not a trash directory: there is nothing to read or
\* purge there (in particular it does not stand for $topdir/.Trash/$uid, whose parent would go unchecked)
ReadDirs(c, s, td) == IF td = "none" THEN {t \in TDirs : ReadUsable(c, s, t)}
                      ELSE IF td = "all" THEN {t \in TDirs : ReadUsableAll(c, s, t)}
                      ELSE IF td = "top:V1" THEN {}
                      ELSE {TC(r) : r \in TdRegions(td)}
\* top directories that exist but must be skipped (trash-list reports them)
Skipped(c, s) == {t \in s.tex : TKind(t) = "t1" /\ TReg(t) \in c.mounted /\ ~TopSecure(c, TReg(t))}
SkippedAll(c, s) == {t \in s.tex : TKind(t) \in {"t1", "o1"} /\ TReg(t) \in c.mounted /\ ~TopSecure(c, TReg(t))}

-----------------------------------------------------------------------------
(* trash-list                                                              *)

ListApply(c, s, td) ==
  [st |-> s,
   out |-> [cmd |-> "list", td |-> td, exit |-> "ok",
            lines |-> LET ts == ReadDirs(c, s, td) IN
                      {[o |-> i.o, date |-> i.date, r |-> i.r, d |-> i.d, n |-> i.n] :
                          i \in {x \in s.items : x.t \in ts}}
                      \cup {[o |-> 0 - k.id, date |-> k.date, r |-> k.r, d |-> k.d, n |-> k.n] :
                          k \in {x \in s.strays : x.t \in ts}},
            diag |-> IF td = "none" THEN Skipped(c, s) ELSE IF td = "all" THEN SkippedAll(c, s) ELSE {}]]
List(td) == LET r == ListApply(cfg, St, td) IN SetSt(r.st) /\ out' = r.out /\ UNCHANGED cfg

\* trash-list --trash-dirs: the directories the reading commands would use, and the ones they refuse, with the reason;
\* trash-list --volumes: the mounted volumes.  (A $topdir/.Trash that is a link to a sticky directory is refused as a link, one
\* that is not sticky - linked or not - as not sticky; the home trash is named whether it exists or not.)
ListDirsApply(c, s, all) ==
  LET sk == IF all THEN SkippedAll(c, s) ELSE Skipped(c, s) IN
  [st |-> s,
   out |-> [cmd |-> "listdirs", all |-> all, exit |-> "ok",
            found     |-> ReadDirs(c, s, IF all THEN "all" ELSE "none"),
            notsticky |-> {t \in sk : c.top[TReg(t)] \in {"nonsticky", "linknonsticky"}},
            symlink   |-> {t \in sk : c.top[TReg(t)] = "linksticky"},
            volumes   |-> c.mounted]]
ListDirs(all) == LET r == ListDirsApply(cfg, St, all) IN SetSt(r.st) /\ out' = r.out /\ UNCHANGED cfg

-----------------------------------------------------------------------------
(* trash-restore                                                           *)

FromSet == [k : {"root"}] \cup [k : {"dir"}, r : Regions, d : Dirs] \cup [k : {"entry"}, r : Regions, d : Dirs, n : Names]
FromPath(f) == CASE f.k = "root" -> << >> [] f.k = "dir" -> DirPathOf(f.r, f.d) [] OTHER -> AbsPath(f.r, f.d, f.n)
InScope(i, f) == IsPrefixSeq(FromPath(f), AbsPath(i.r, i.d, i.n))

\* entries trash-restore can offer: items whose info has a Path (strays are listed too: they have an info file)
Offerable(c, s, f, td) ==
  LET ts == ReadDirs(c, s, td) IN
  {[kind |-> "item", t |-> i.t, o |-> i.o, id |-> 0, r |-> i.r, d |-> i.d, n |-> i.n, date |-> i.date] :
      i \in {x \in s.items : x.t \in ts /\ InScope(x, f)}}
  \cup {[kind |-> "stray", t |-> k.t, o |-> 0, id |-> k.id, r |-> k.r, d |-> k.d, n |-> k.n, date |-> k.date] :
      k \in {x \in s.strays : x.t \in ts /\ InScope(x, f)}}

\* A listing is a sequence without repetition over Offerable that contains every dated entry.
\* Undated entries (malformed: no DeletionDate) may be offered or not.  Order constraints:
\*   date: dated entries non-decreasing in date;  path: entries at the same location by date
\*   (the order between different locations is a statement about concrete bytes: layer F, PathOrder);
\*   none: any order.
OrderOK(ls, sort) ==
  \A i, j \in 1 .. Len(ls) : i < j /\ ls[i].date # NoDate /\ ls[j].date # NoDate =>
     CASE sort = "date" -> ls[i].date <= ls[j].date
       [] sort = "path" -> (<<ls[i].r, ls[i].d, ls[i].n>> = <<ls[j].r, ls[j].d, ls[j].n>> => ls[i].date <= ls[j].date)
       [] OTHER -> TRUE
IsListing(c, s, f, td, sort, ls) ==
  LET off == Offerable(c, s, f, td) IN
  /\ \A i \in 1 .. Len(ls) : ls[i] \in off
  /\ \A i, j \in 1 .. Len(ls) : i # j => ls[i] # ls[j]
  /\ \A e \in off : e.date # NoDate => \E i \in 1 .. Len(ls) : ls[i] = e
  /\ OrderOK(ls, sort)

ReplySet(n) == [k : {"eof", "empty", "invalid"}] \cup [k : {"idx"}, idx : UNION {[1 .. m -> 0 .. n - 1] : m \in 1 .. 2}]

Occupant(s, r, d, n) == EntryAt(s, r, d, n)

\* restore the entries ls[idx[k]+1] left to right; the first refused one stops the run
RECURSIVE RestoreSeq(_, _, _, _, _, _)
RestoreSeq(c, s, ls, idx, ow, done) ==
  IF idx = << >> THEN [st |-> s, refused |-> FALSE, undef |-> FALSE, sundef |-> FALSE]
  ELSE LET e == ls[Head(idx) + 1] IN
       IF e \in done THEN RestoreSeq(c, s, ls, Tail(idx), ow, done)    \* duplicate index: restored once
       \* no payload to move: an error; whether the info file stays is open (sundef), everything else is as it was - in
       \* particular whatever lives at the original location, --overwrite or not (there is nothing to replace it with)
       ELSE IF e.kind = "stray" THEN [st |-> s, refused |-> TRUE, undef |-> FALSE, sundef |-> TRUE]
       ELSE LET occ == Occupant(s, e.r, e.d, e.n) IN
            IF occ # {} /\ ~ow THEN [st |-> s, refused |-> TRUE, undef |-> FALSE, sundef |-> FALSE]
            ELSE IF occ # {} /\ \E x \in occ : c.kind[x.o] = "dir"
                 THEN [st |-> s, refused |-> TRUE, undef |-> TRUE, sundef |-> FALSE]     \* overwrite onto a directory: property silent
            ELSE LET it == CHOOSE x \in s.items : x.t = e.t /\ x.o = e.o
                     s2 == [s EXCEPT !.live   = (@ \ occ) \cup {[r |-> e.r, d |-> e.d, n |-> e.n, o |-> e.o]},
                                     !.purged = @ \cup {x.o : x \in occ},
                                     !.items  = @ \ {it},
                                     !.dirs   = @ \cup {[r |-> e.r, d |-> dd] : dd \in DAnc[e.d]}]
                 IN RestoreSeq(c, s2, ls, Tail(idx), ow, done \cup {e})

HasDup(idx) == \E i, j \in 1 .. Len(idx) : i # j /\ idx[i] = idx[j]

\* all results of trash-restore for a given listing
RestoreApply(c, s, ls, reply, ow) ==
  LET lsout == [i \in 1 .. Len(ls) |-> [date |-> ls[i].date, r |-> ls[i].r, d |-> ls[i].d, n |-> ls[i].n]] IN
  IF Len(ls) = 0 THEN [st |-> s, undef |-> FALSE, sundef |-> FALSE, out |-> [cmd |-> "restore", exit |-> "ok", listing |-> lsout]]
  ELSE CASE reply.k = "eof"     -> [st |-> s, undef |-> FALSE, sundef |-> FALSE, out |-> [cmd |-> "restore", exit |-> "fail", listing |-> lsout]]
         [] reply.k = "empty"   -> [st |-> s, undef |-> FALSE, sundef |-> FALSE, out |-> [cmd |-> "restore", exit |-> "ok", listing |-> lsout]]
         [] reply.k = "invalid" -> [st |-> s, undef |-> FALSE, sundef |-> FALSE, out |-> [cmd |-> "restore", exit |-> "fail", listing |-> lsout]]
         [] OTHER ->
              IF \E i \in 1 .. Len(reply.idx) : reply.idx[i] >= Len(ls)
              THEN [st |-> s, undef |-> FALSE, sundef |-> FALSE, out |-> [cmd |-> "restore", exit |-> "fail", listing |-> lsout]]
              ELSE LET r == RestoreSeq(c, s, ls, reply.idx, ow, {}) IN
                   [st |-> r.st, undef |-> r.undef, sundef |-> r.sundef,
                    out |-> [cmd |-> "restore",
                             exit |-> IF r.sundef THEN "any" ELSE IF r.refused THEN "fail" ELSE IF HasDup(reply.idx) THEN "any" ELSE "ok",
                             listing |-> lsout]]

\* listings of bounded length over the offerable entries (for generation)
SeqsNoRep(S) == UNION {{f \in [1 .. m -> S] : \A i, j \in 1 .. m : i # j => f[i] # f[j]} : m \in 0 .. Cardinality(S)}

Restore(f, td, sort, reply, ow) ==
  \E ls \in SeqsNoRep(Offerable(cfg, St, f, td)) :
    /\ IsListing(cfg, St, f, td, sort, ls)
    /\ LET r == RestoreApply(cfg, St, ls, reply, ow) IN
       \* undef: the run met a case the properties leave open (overwrite onto a directory, an entry without payload);
       \* the label says so and the post-state of such a step is not constrained
       /\ SetSt(r.st)
       /\ out' = [cmd |-> "restore", from |-> f, td |-> td, sort |-> sort, reply |-> reply, ow |-> ow,
                  exit |-> IF r.undef THEN "any" ELSE r.out.exit, listing |-> r.out.listing, undef |-> r.undef, sundef |-> r.sundef]
    /\ UNCHANGED cfg

-----------------------------------------------------------------------------
(* trash-empty                                                             *)

Expired(date, now, days) == date # NoDate /\ date + days * DayTicks < now      \* strict

Doomed(s, days, ts) ==
  IF days = -1 THEN {i \in s.items : i.t \in ts}
  ELSE {i \in s.items : i.t \in ts /\ Expired(i.date, s.clock, days)}
DoomedStrays(s, days, ts) ==
  IF days = -1 THEN {k \in s.strays : k.t \in ts}
  ELSE {k \in s.strays : k.t \in ts /\ Expired(k.date, s.clock, days)}
\* malformed .trashinfo files have no date: kept when DAYS is given, removed otherwise; non-.trashinfo files always stay
DoomedJunk(s, days, ts) ==
  IF days = -1 THEN {j \in s.junk : j.t \in ts /\ j.kind = "nopath"} ELSE {}

EmptyOptsSet == [days : {-1} \cup 0 .. 3, dry : BOOLEAN, consent : {"auto", "yes", "no"}, td : {"none", "all", "V1+R", "top:V1"} \cup Regions]
\* consent: "auto" = not interactive; "yes"/"no" = interactive with a reply that does / does not begin with y or Y

EmptyApply(c, s, o) ==
  LET ts  == ReadDirs(c, s, o.td)
      di  == Doomed(s, o.days, ts)
      ds  == DoomedStrays(s, o.days, ts)
      dj  == DoomedJunk(s, o.days, ts)
      dor == {x \in s.orph : x.t \in ts}                 \* orphans go with and without DAYS (what the tool does; the property only demands it without DAYS)
      would == {[t |-> i.t, part |-> "files", ref |-> i.o] : i \in di} \cup {[t |-> i.t, part |-> "info", ref |-> i.o] : i \in di}
               \cup {[t |-> k.t, part |-> "info", ref |-> 0 - k.id] : k \in ds}
               \cup {[t |-> j.t, part |-> "info", ref |-> 0 - j.id] : j \in dj}
               \cup {[t |-> x.t, part |-> "files", ref |-> x.o] : x \in dor}
      \* KNOWN DEVIATION (C14, pinned by the repository's own test_with_dry_run): the dry run also prints the payload
      \* path of an info file that has no payload, although the real run has nothing to remove there
      dev == {[t |-> k.t, part |-> "files", ref |-> 0 - k.id] : k \in ds} \cup {[t |-> j.t, part |-> "files", ref |-> 0 - j.id] : j \in dj}
  IN IF o.consent = "no" THEN [st |-> s, out |-> [cmd |-> "empty", opts |-> o, exit |-> "any", printed |-> {}, printedDev |-> {}]]
     ELSE IF o.dry THEN [st |-> s, out |-> [cmd |-> "empty", opts |-> o, exit |-> "ok", printed |-> would, printedDev |-> would \cup dev]]
     ELSE [st |-> [s EXCEPT !.items = @ \ di, !.strays = @ \ ds, !.junk = @ \ dj, !.orph = @ \ dor,
                            !.purged = @ \cup {i.o : i \in di} \cup {x.o : x \in dor}],
           out |-> [cmd |-> "empty", opts |-> o, exit |-> "ok", printed |-> {}, printedDev |-> {}]]
Empty(o) == LET r == EmptyApply(cfg, St, o) IN SetSt(r.st) /\ out' = r.out /\ UNCHANGED cfg

-----------------------------------------------------------------------------
(* trash-rm                                                                *)

PatSet == [k : {"name"}, n : Names] \cup [k : {"path"}, r : Regions, d : Dirs, n : Names] \cup [k : {"all", "nomatch"}]
Matches(p, x) == CASE p.k = "name" -> x.n = p.n
                   [] p.k = "path" -> x.r = p.r /\ x.d = p.d /\ x.n = p.n
                   [] p.k = "all"  -> TRUE
                   [] OTHER        -> FALSE
RmApply(c, s, p) ==
  LET ts == ReadDirs(c, s, "none")
      di == {i \in s.items : i.t \in ts /\ Matches(p, i)}
      ds == {k \in s.strays : k.t \in ts /\ Matches(p, k)}
  IN [st |-> [s EXCEPT !.items = @ \ di, !.strays = @ \ ds, !.purged = @ \cup {i.o : i \in di}],
      out |-> [cmd |-> "rm", pat |-> p, exit |-> "ok"]]
Rm(p) == LET r == RmApply(cfg, St, p) IN SetSt(r.st) /\ out' = r.out /\ UNCHANGED cfg

-----------------------------------------------------------------------------
(* Environment                                                             *)

Tick == /\ clock < MaxClock /\ clock' = clock + 1
        /\ out' = [cmd |-> "tick"]
        /\ UNCHANGED <<cfg, live, dirs, tex, items, orph, strays, junk, purged>>

Born(s) == {e.o : e \in s.live} \cup {i.o : i \in s.items} \cup {x.o : x \in s.orph} \cup s.purged
\* the user creates a new entry (a fresh object) at a free place in an existing directory
Create(r, d, n, o) ==
  /\ o \in Objs \ Born(St) /\ \A p \in Objs \ Born(St) : o <= p
  /\ [r |-> r, d |-> d] \in dirs /\ EntryAt(St, r, d, n) = {}
  /\ live' = live \cup {[r |-> r, d |-> d, n |-> n, o |-> o]}
  /\ out' = [cmd |-> "create", r |-> r, d |-> d, n |-> n, o |-> o]
  /\ UNCHANGED <<cfg, dirs, tex, items, orph, strays, junk, clock, purged>>
\* the user removes an empty directory slot (so that restore has to re-create parents)
RmDir(r, d) ==
  /\ d # "top" /\ [r |-> r, d |-> d] \in dirs
  /\ ~\E e \in live : e.r = r /\ d \in DAnc[e.d]
  /\ dirs' = {x \in dirs : ~(x.r = r /\ d \in DAnc[x.d])}
  /\ out' = [cmd |-> "rmdir", r |-> r, d |-> d]
  /\ UNCHANGED <<cfg, live, tex, items, orph, strays, junk, clock, purged>>

-----------------------------------------------------------------------------
(* Type invariant and the properties                                       *)

TypeOK ==
  /\ CfgOK(cfg)
  /\ \A e \in live : e.r \in Regions /\ e.d \in Dirs /\ e.n \in Names /\ e.o \in Objs /\ [r |-> e.r, d |-> e.d] \in dirs
  /\ \A x \in dirs : x.r \in Regions /\ x.d \in Dirs
  /\ tex \subseteq TDirs
  /\ \A i \in items : i.t \in tex /\ i.o \in Objs /\ i.date \in -1 .. MaxClock + 10
  /\ \A x \in orph : x.t \in tex /\ x.o \in Objs
  /\ clock \in 0 .. MaxClock /\ purged \subseteq Objs

\* C01 / C09 / C11: every object is in exactly one place (in place, one item, one orphan, or destroyed)
Conservation ==
  /\ \A e1, e2 \in live : (e1.o = e2.o => e1 = e2) /\ (<<e1.r, e1.d, e1.n>> = <<e2.r, e2.d, e2.n>> => e1 = e2)
  /\ \A i1, i2 \in items : i1.o = i2.o => i1 = i2
  /\ \A x1, x2 \in orph : x1.o = x2.o => x1 = x2
  /\ {e.o : e \in live} \cap {i.o : i \in items} = {}
  /\ {e.o : e \in live} \cap {x.o : x \in orph} = {}
  /\ {i.o : i \in items} \cap {x.o : x \in orph} = {}
  /\ purged \cap ({e.o : e \in live} \cup {i.o : i \in items} \cup {x.o : x \in orph}) = {}

\* C08: nothing stored under an insecure $topdir/.Trash ever changes, and trash-put never chooses it
InsecureFrozen ==
  [][\A t \in TDirs : TKind(t) \in {"t1", "o1"} /\ ~TopSecure(cfg, TReg(t)) =>
        /\ {i \in items : i.t = t} = {i \in items' : i.t = t}
        /\ {x \in orph : x.t = t} = {x \in orph' : x.t = t}
        /\ {k \in strays : k.t = t} = {k \in strays' : k.t = t}]_vars

\* C07: an item is always stored on the volume of its original location, unless both fallback switches were on
PutVolumeOK ==
  [][out'.cmd = "put" =>
       \A i \in items' \ items : TDirVol(cfg, i.t) = VolOf(i.r) \/ (out'.opts.hf /\ out'.opts.hfenv /\ i.t = "home")]_vars

\* C11: purging changes nothing outside the trash directories operated on
PurgeFrame == [][out'.cmd \in {"empty", "rm"} => live' = live /\ dirs' = dirs]_vars

\* C14: dry run and a negative answer change nothing (holds by construction of EmptyApply; checked as an action property)
NoConsentNoChange == [][out'.cmd = "empty" /\ out'.printed # {} => svars' = svars]_vars

\* C09: listing = the bag; checked as a state predicate over the pure operator
ListIsBag ==
  LET r == ListApply(cfg, St, "none") IN
  /\ r.st = St
  /\ \A i \in items : ReadUsable(cfg, St, i.t) <=> \E l \in r.out.lines : l.o = i.o

\* C19: malformed neighbours do not change what a command does to / says about well-formed entries
Strip(s) == [s EXCEPT !.junk = {}]
JunkIsolation ==
  /\ \A days \in {-1, 0, 1} : LET o == [days |-> days, dry |-> FALSE, consent |-> "auto", td |-> "none"] IN
        EmptyApply(cfg, Strip(St), o).st = Strip(EmptyApply(cfg, St, o).st)
  /\ \A p \in PatSet : RmApply(cfg, Strip(St), p).st = Strip(RmApply(cfg, St, p).st)
  /\ ListApply(cfg, Strip(St), "none").out.lines = ListApply(cfg, St, "none").out.lines

PutIndependence ==
  [][out'.cmd = "put" =>
       \A i \in 1 .. Len(out'.args) :
          (\A j \in 1 .. Len(out'.args) : j # i => out'.args[j] # out'.args[i]) =>
             out'.ocs[i] = PutOutcome(cfg, St, out'.args[i], out'.opts)]_vars

\* C16: the outcome of each argument equals the outcome of that argument alone, for unrelated arguments
ArgIndependent(c, s, args, o) ==
  LET r == PutFold(c, s, args, o, << >>) IN
  \A i \in 1 .. Len(args) :
     (\A j \in 1 .. Len(args) : j # i => args[j] # args[i]) =>
        r.ocs[i] = PutOutcome(c, s, args[i], o)

=============================================================================

----------------------------- MODULE PutOpsTrace -----------------------------
(***************************************************************************)
(* Design conformance: operation traces recorded from REAL trash-put        *)
(* processes running in lock-step (harness/oplevel.py) are validated        *)
(* against the actions of PutOps.tla.                                       *)
(*                                                                          *)
(* The trace file holds several traces of one scenario (same constants).    *)
(* Each event is one operation of one process on a shared path:             *)
(*    [p, k, part | slot, res]   k in mkdir, isdir, probe, create, write,   *)
(*                               close, rename, unlink                      *)
(* (the harness only classifies paths; reads that the design does not name  *)
(* - the lstat chain of realpath, the stat of the parent inside makedirs -  *)
(* are dropped before validation: they are stuttering steps).               *)
(* An event is matched by the PutOps action of that process with the logged *)
(* result bound; MkdirDone and Finish are internal steps of the design and  *)
(* are taken silently.  A trace is accepted when every event has been       *)
(* consumed.  All invariants of PutOps are checked on every state of the    *)
(* validated behaviour (cfg: INVARIANT lines), so acceptance carries the    *)
(* exhaustive result on the design over to the observed execution.          *)
(***************************************************************************)
EXTENDS PutOps, Json, IOUtils

Traces == JsonDeserialize(IOEnv.TRACE_FILE)
VARIABLES tid, l
tvars == <<vars, tid, l>>

Tr == Traces[tid]
Ev == Tr[l]

InitT == Init /\ tid \in 1 .. Len(Traces) /\ l = 1

\* internal steps of the design (no operation of their own)
Silent == /\ \E p \in Procs : MkdirDone(p) \/ Finish(p)
          /\ UNCHANGED <<tid, l>>

Consume == l <= Len(Tr) /\ l' = l + 1 /\ tid' = tid

EvMkdir ==
  /\ Ev.k = "mkdir" /\ Consume
  /\ LET p == Ev.p IN
     /\ pc[p] = "mkdir" /\ part[p] = Ev.part
     /\ MkdirTry(p)
     /\ (Ev.res = "ok"     => pc'[p] = "mkdirdone" /\ Ev.part \notin parts[T(p)])
     /\ (Ev.res = "EEXIST" => pc'[p] = "isdir")
     /\ Ev.res \in {"ok", "EEXIST"}
EvIsDir ==
  /\ Ev.k = "isdir" /\ Consume
  /\ LET p == Ev.p IN pc[p] = "isdir" /\ part[p] = Ev.part /\ Ev.res = "ok" /\ IsDir(p)
EvProbe ==
  /\ Ev.k = "probe" /\ Consume
  /\ LET p == Ev.p IN
     /\ pc[p] = "probe" /\ Ev.slot \in SlotChoices(idx[p])
     /\ Probe(p)
     /\ (Ev.res = "ENOENT" => pc'[p] = "create" /\ slot'[p] = Ev.slot /\ pay[T(p)][Ev.slot] = NoneV)
     /\ (Ev.res = "ok"     => pc'[p] = "probe" /\ pay[T(p)][Ev.slot] # NoneV)
     /\ Ev.res \in {"ok", "ENOENT"}
EvCreate ==
  /\ Ev.k = "create" /\ Consume
  /\ LET p == Ev.p IN
     /\ pc[p] = "create" /\ slot[p] = Ev.slot
     /\ CreateExcl(p) /\ nfaults' = nfaults
     /\ (Ev.res = "ok"     => pc'[p] = "write")
     /\ (Ev.res = "EEXIST" => pc'[p] = "probe" /\ Ev.slot \notin TooLong)
     /\ (Ev.res = "ENAMETOOLONG" => pc'[p] = "probe" /\ Ev.slot \in TooLong)
     /\ Ev.res \in {"ok", "EEXIST", "ENAMETOOLONG"}
EvWrite ==
  /\ Ev.k = "write" /\ Consume
  /\ LET p == Ev.p IN pc[p] = "write" /\ slot[p] = Ev.slot /\ Ev.res = "ok" /\ (Write(p) \/ WritePart(p)) /\ nfaults' = nfaults
EvClose ==
  /\ Ev.k = "close" /\ Consume
  /\ LET p == Ev.p IN pc[p] = "close" /\ slot[p] = Ev.slot /\ Ev.res = "ok" /\ Close(p) /\ nfaults' = nfaults
EvRename ==
  /\ Ev.k = "rename" /\ Consume
  /\ LET p == Ev.p IN pc[p] = "move" /\ slot[p] = Ev.slot /\ Ev.res = "ok" /\ Move(p) /\ nfaults' = nfaults /\ pc'[p] = "finish"

NextT == Silent \/ (l <= Len(Tr) /\ (EvMkdir \/ EvIsDir \/ EvProbe \/ EvCreate \/ EvWrite \/ EvClose \/ EvRename))

\* printed once per trace when its last event has been consumed and every process is at rest
Accepted == l = Len(Tr) + 1 /\ \A p \in Procs : pc[p] \in {"done", "finish"}
ReportAccept == ~Accepted \/ PrintT(<<"##ACCEPT", tid>>)
\* how far the longest matched prefix of each trace got (for the diagnosis of a rejection)
Progress == PrintT(<<"##AT", tid, l>>)
=============================================================================

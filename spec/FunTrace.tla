-------------------------------- MODULE FunTrace --------------------------------
(***************************************************************************)
(* Code -> specification for the function layer: observations made on the  *)
(* real commands (bytes of a written .trashinfo, what each reader printed   *)
(* or did for a given .trashinfo, keep/purge decisions, match decisions,    *)
(* restored index sets) are judged by TLC evaluating the TLA+ operators on  *)
(* the same concrete data.  One state per observation.                      *)
(***************************************************************************)
EXTENDS Naturals, Integers, Sequences, FiniteSets, TLC, Json, IOUtils

TI == INSTANCE TrashInfo
DT == INSTANCE Dates
GL == INSTANCE Glob
IX == INSTANCE Indexes

Obs == JsonDeserialize(IOEnv.TRACE_FILE)
VARIABLES tid, phase

\* absent values arrive as the one-element sequence <<-1>> (TLC refuses to compare a string with a sequence)
IsNone(x) == x = <<-1>>
DateOrNone(x) == IF IsNone(x) THEN TI!NoValue ELSE x

Judge(o) ==
  CASE o.f = "format" ->
         \* the bytes trash-put wrote for location o.loc at o.date
         ~IsNone(o.content) /\ TI!WellFormed(o.content, o.loc, o.date)
         /\ (o.relative => TI!RelativeOK(o.loc))
    [] o.f = "meaning" ->
         \* a reader's view (path, date) of a .trashinfo with these bytes found in a directory with this base
         LET m == TI!Meaning(o.content, o.base) IN
         /\ (IsNone(o.path) <=> m.loc = TI!NoValue)
         /\ (~IsNone(o.path) => o.path = m.loc)
         /\ (o.datechecked => DateOrNone(o.date) = m.date)
    [] o.f = "restored" ->
         \* trash-restore was asked for the only entry of a trash directory (content o.content, base o.base): the payload
         \* must land at the location its .trashinfo means (o.landed: where it was found afterwards, or none)
         \* o.occupied: something already exists at that location (C06): nothing lands, the run fails, and the occupant,
         \* the payload and the .trashinfo are as before (o.intact)
         LET m == TI!Meaning(o.content, o.base) IN
         IF m.loc = TI!NoValue THEN IsNone(o.landed)
         ELSE IF o.occupied THEN IsNone(o.landed) /\ o.intact /\ o.failed
         ELSE ~IsNone(o.landed) /\ TI!SameEntry(o.landed, m.loc)
    [] o.f = "expired" ->
         \* trash-empty DAYS purged (o.purged) an entry whose .trashinfo content is o.content at time o.now
         LET d == TI!ParseDate(o.content) IN
         o.purged <=> (d # TI!NoValue /\ DT!Expired(d, o.now, o.days))
    [] o.f = "timed" ->
         \* the DeletionDate trash-put wrote for one argument of a run during which the clock kept moving lies between the
         \* moment the run first touched that argument (o.lo) and the moment the argument left its place (o.hi): it is the
         \* time of trashing of THIS entry, not of the run or of a neighbour
         LET d == TI!ParseDate(o.content) IN
         d # TI!NoValue /\ ~DT!Expired(d, o.lo, 0) /\ ~DT!Expired(o.hi, d, 0)
    [] o.f = "match" ->
         o.removed <=> GL!RmMatches(o.pat, o.path)
    [] o.f = "denote" ->
         LET d == IX!Denote(o.reply, o.n) IN
         IF IsNone(o.restored) THEN d = IX!Invalid
         ELSE d # IX!Invalid /\ {d[i] : i \in DOMAIN d} = {o.restored[i] : i \in DOMAIN o.restored}
    [] o.f = "scope" ->
         o.listed <=> IX!InScope(o.loc, o.dir)
    [] o.f = "pathorder" ->
         \A i \in 1 .. Len(o.paths) - 1 : IX!LexLeq(o.paths[i], o.paths[i + 1])
    [] OTHER -> FALSE

InitF == tid \in 1 .. Len(Obs) /\ phase = 0
NextF == /\ phase = 0 /\ phase' = 1 /\ tid' = tid
         /\ Judge(Obs[tid])
         /\ PrintT(<<"##ACCEPT", tid>>)
=============================================================================

-------------------------------- MODULE MC_Fun --------------------------------
(* Exhaustive checks of the function layer over small alphabets: one state per law. *)
EXTENDS Naturals, Integers, Sequences, FiniteSets, TLC
VARIABLE k

TI == INSTANCE TrashInfo
DT == INSTANCE Dates
GL == INSTANCE Glob
IX == INSTANCE Indexes

\* a, /, %, +, space, LF, CR, =, [, #, ., 2, 5, 0xC3, 0xA9, 0xFF
Sigma == {97, 47, 37, 43, 32, 10, 13, 61, 91, 35, 46, 50, 53, 195, 169, 255}
SeqsUpTo(S, n) == UNION {[1 .. m -> S] : m \in 0 .. n}
DatesPool == {<<2020, 2, 29, 23, 59, 59>>, <<1, 1, 1, 0, 0, 0>>, <<9999, 12, 31, 23, 59, 59>>, <<2023, 12, 31, 0, 0, 0>>, <<2000, 3, 1, 12, 30, 1>>}

CodecLaw == \A p \in SeqsUpTo(Sigma, 3) :
              /\ TI!Unescape(TI!Escape(p)) = p
              /\ TI!EscapedOK(TI!Escape(p))
              /\ \A d \in {<<2020, 2, 29, 23, 59, 59>>} :
                   LET c == TI!FormatInfo(p, d) IN
                   /\ TI!ParsePath(c) = p /\ TI!ParseDate(c) = d /\ TI!WellFormed(c, p, d)
DateLaw == /\ \A d \in DatesPool : TI!ParseDateValue(TI!FormatDate(d)) = d
           /\ TI!ParseDateValue(TI!FormatDate(<<2021, 2, 29, 0, 0, 0>>)) = TI!NoValue      \* not a leap year
           /\ TI!ParseDateValue(TI!FormatDate(<<2020, 13, 1, 0, 0, 0>>)) = TI!NoValue
           /\ TI!ParseDateValue(<<50, 48, 50, 48, 45, 49, 45, 49>>) = TI!NoValue              \* "2020-1-1"
\* unescaping is the identity on text without a valid escape, and decodes either hex case
UnescapeLaw == /\ \A t \in SeqsUpTo({97, 37, 52, 49, 71, 47}, 4) :
                    (\A i \in 1 .. Len(t) : t[i] # 37) => TI!Unescape(t) = t
               /\ TI!Unescape(<<37, 52, 49>>) = <<65>> /\ TI!Unescape(<<37, 99, 51, 37, 65, 57>>) = <<195, 169>>
               /\ TI!Unescape(<<37, 52>>) = <<37, 52>> /\ TI!Unescape(<<37, 71, 49>>) = <<37, 71, 49>>
               /\ TI!Unescape(<<43>>) = <<43>>                                                 \* "+" is not a space
FirstLineLaw == LET c == TI!KeyPath \o <<97>> \o <<10>> \o TI!KeyPath \o <<98>> \o <<10>> \o TI!KeyDate \o <<120>> \o <<10>> \o TI!KeyDate \o TI!FormatDate(<<2020, 2, 29, 1, 2, 3>>)
                IN TI!ParsePath(c) = <<97>> /\ TI!ParseDate(c) = TI!NoValue
DayLaw == /\ DT!EmbeddingLemma(3, 40, 6)
          /\ \A y \in {1999, 2000, 2001, 2023, 2024, 2100}, m \in 1 .. 12, d \in 1 .. 31 :
               d <= TI!DaysIn(y, m) =>
                 LET nd == IF d < TI!DaysIn(y, m) THEN <<y, m, d + 1>> ELSE IF m < 12 THEN <<y, m + 1, 1>> ELSE <<y + 1, 1, 1>>
                 IN DT!DayNumber(nd[1], nd[2], nd[3]) = DT!DayNumber(y, m, d) + 1
          /\ DT!Expired(<<2020, 2, 28, 23, 59, 58>>, <<2020, 3, 1, 23, 59, 59>>, 2)
          /\ ~DT!Expired(<<2020, 2, 28, 23, 59, 59>>, <<2020, 3, 1, 23, 59, 59>>, 2)
          /\ ~DT!Expired(<<2020, 2, 29, 0, 0, 0>>, <<2020, 3, 1, 23, 59, 59>>, 2)
GSig == {97, 98, 65, 42, 63, 91, 93, 33, 45, 47}
GlobLaw == /\ \A s \in SeqsUpTo({97, 98, 65, 47}, 3) :
                /\ GL!Match(<<42>>, s) /\ GL!Match(s, s) /\ GL!Match(s \o <<42>>, s) /\ GL!Match(<<42>> \o s, s)
                /\ (Len(s) = 1 <=> GL!Match(<<63>>, s))
                /\ (GL!Match(<<91, 97, 45, 98, 93>>, s) <=> s \in {<<97>>, <<98>>})
                /\ (GL!Match(<<91, 33, 97, 93>>, s) <=> (Len(s) = 1 /\ s # <<97>>))
                /\ (GL!Match(<<91, 97>>, s) <=> s = <<91, 97>>)
           /\ ~GL!Match(<<97>>, <<65>>)                                                     \* case-sensitive
           /\ GL!RmMatches(<<97>>, <<47, 120, 47, 97>>) /\ ~GL!RmMatches(<<47, 97>>, <<47, 120, 47, 97>>)
           /\ GL!RmMatches(<<47, 42, 47, 97>>, <<47, 120, 47, 97>>)
ISig == {48, 49, 50, 45, 44, 32, 43, 120}
IndexLaw == /\ \A r \in SeqsUpTo(ISig, 4) : \A n \in 0 .. 3 :
                 LET d == IX!Denote(r, n) IN d = IX!Invalid \/ \A j \in 1 .. Len(d) : d[j] \in 0 .. n - 1
            /\ IX!Denote(<<48, 44, 50>>, 3) = <<0, 2>> /\ IX!Denote(<<48, 45, 50>>, 3) = <<0, 1, 2>>
            /\ IX!Denote(<<50, 45, 48>>, 3) = << >> /\ IX!Denote(<<32, 43, 49, 32>>, 3) = <<1>>
            /\ IX!Denote(<< >>, 3) = IX!Invalid /\ IX!Denote(<<48, 44>>, 3) = IX!Invalid
            /\ IX!Denote(<<51>>, 3) = IX!Invalid /\ IX!Denote(<<48, 45>>, 3) = IX!Invalid /\ IX!Denote(<<45, 49>>, 3) = IX!Invalid
            /\ IX!Denote(<<49, 45, 48, 45, 50>>, 3) = IX!Invalid /\ IX!Denote(<<48, 45, 57>>, 3) = IX!Invalid
            /\ IX!InScope(<<47, 97, 47, 102>>, <<47, 97>>) /\ ~IX!InScope(<<47, 97, 98>>, <<47, 97>>)
            /\ IX!InScope(<<47, 97>>, <<47, 97>>) /\ IX!InScope(<<47, 97>>, <<47>>)

Laws == <<CodecLaw, DateLaw, UnescapeLaw, FirstLineLaw, DayLaw, GlobLaw, IndexLaw>>
Init == k = 1
Next == k < Len(Laws) /\ k' = k + 1
LawHolds == Laws[k]
=============================================================================

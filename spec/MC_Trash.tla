----------------------------- MODULE MC_Trash -----------------------------
(* Bounded instance of Trash.tla for exhaustive checking and for generation. *)
EXTENDS Trash

CONSTANTS MaxDepth

\* configurations explored exhaustively: the .Trash lattice varies on V1, the others are fixed
MCCfgs ==
  {c \in [mounted : {{"R", "V1"}, {"R", "H", "V1"}, {"R", "V1", "V2"}},
          top     : {[r \in Regions |-> IF r = "V1" THEN x ELSE "absent"] : x \in TopStates},
          altfile : {{}, {"V1"}},
          xdg     : {"set", "unset", "empty"},
          home    : {"set"}, hlink : {"none"},
          kind    : {[o \in Objs |-> CASE o = 1 -> "file" [] o = 2 -> "dir" [] OTHER -> "dlink"]}] : TRUE}

UsedRegions(c) == c.mounted
MCArgs == [class : {"entry"}, r : {"R", "V1"}, d : {"top", "d"}, n : {"a"}]
          \cup [class : {"dot"}, r : {"V1"}, d : {"d"}] \cup [class : {"mount"}, r : {"V1"}]
MCPutOpts == [force : {FALSE}, inter : {"off", "decline"}, td : {"none"}, hf : BOOLEAN, hfenv : BOOLEAN]

Init ==
  /\ cfg \in MCCfgs
  /\ live = {[r |-> "R", d |-> "d", n |-> "a", o |-> 1], [r |-> "V1", d |-> "top", n |-> "a", o |-> 2]}
  /\ dirs = {[r |-> r, d |-> "top"] : r \in Regions} \cup {[r |-> r, d |-> "d"] : r \in cfg.mounted}
  \* either nothing is trashed yet, or the other user already has an entry under $topdir/.Trash/$uid2 of V1 (where
  \* $topdir/.Trash exists as a directory or a link to one)
  /\ \/ tex = {} /\ items = {}
     \/ /\ cfg.top["V1"] \notin {"absent", "file"}
        /\ tex = {O1("V1")} /\ items = {[t |-> O1("V1"), o |-> 3, r |-> "V1", d |-> "d", n |-> "a", date |-> 0]}
  /\ orph = {} /\ strays = {} /\ junk = {}
  /\ clock = 0 /\ purged = {} /\ out = [cmd |-> "init"]

Next ==
  \/ \E a \in MCArgs, o \in MCPutOpts : Put(<<a>>, o)
  \/ \E a, b \in MCArgs, o \in MCPutOpts : a # b /\ o.inter = "off" /\ ~o.hf /\ Put(<<a, b>>, o)
  \/ List("none") \/ List("all")
  \/ \E f \in [k : {"root"}] \cup [k : {"dir"}, r : {"R", "V1"}, d : {"top", "d"}], sort \in {"date", "path", "none"},
        reply \in ReplySet(2), ow \in BOOLEAN : Restore(f, "none", sort, reply, ow)
  \/ \E o \in [days : {-1, 0, 1}, dry : BOOLEAN, consent : {"auto", "yes", "no"}, td : {"none", "all"}] : Empty(o)
  \/ \E p \in [k : {"name"}, n : {"a"}] \cup [k : {"path"}, r : {"V1"}, d : {"top"}, n : {"a"}] \cup [k : {"all", "nomatch"}] : Rm(p)
  \/ Tick
  \/ \E r \in {"R", "V1"}, d \in {"top", "d"}, o \in Objs : Create(r, d, "a", o)
  \/ \E r \in {"V1"} : RmDir(r, "d")

Spec == Init /\ [][Next]_vars
Bound == TLCGet("level") <= MaxDepth
View == <<cfg, svars>>

=============================================================================

------------------------------- MODULE PutEmpty -------------------------------
(***************************************************************************)
(* Growth beyond the listed properties: trash-put running concurrently     *)
(* with trash-empty on the same trash directory.                           *)
(*                                                                         *)
(* trash-empty (no DAYS) lists info/*.trashinfo and, per entry, removes    *)
(* the payload then the info; then it lists files/ and removes every       *)
(* payload whose info does not exist.  Both commands are correct alone     *)
(* (PutOps, PurgeOps); together the emptier can remove the info a put has  *)
(* just reserved, or sweep the payload a put has just moved, depending on  *)
(* the interleaving.  TLC exhibits the schedules; the harness replays them *)
(* on the real commands (tools/put_vs_empty).  None of the listed          *)
(* properties quantifies over this pair, so this is reported as an         *)
(* observation in DESIGN.md, not as a violation of a check.                *)
(***************************************************************************)
EXTENDS PutOps

CONSTANTS WithDays,   \* TRUE: trash-empty DAYS - an entry is purged only if its info, READ when the entry's turn comes, carries
                      \* an old date: pre-existing entries are old, whatever a running trash-put has written (nothing yet, or
                      \* today's date) is not.  FALSE: plain trash-empty, every listed entry is purged.
          EMutant     \* "none" | "snapshot": the orphan pass decides "this payload has no info" from the listing of info/ taken
                      \* at the start instead of looking now (seed C10-d)

VARIABLES epc,      \* emptier: "list" | "entries" | "orphans" | "done"
          etodo,    \* slots still to purge in the current phase
          ecur,     \* <<slot, phase>> in hand: phase "pay" then "info"
          einfos    \* the names listed in info/ when the emptier started
pevars == <<vars, epc, etodo, ecur, einfos>>

TD == Cands[1]

EInit == Init /\ epc = "list" /\ etodo = {} /\ ecur = <<"-", "-">> /\ einfos = {}

\* snapshot of the info directory
EList == /\ epc = "list"
         /\ etodo' = {s \in AllSlots : info[TD][s] # NoneV}
         /\ einfos' = {s \in AllSlots : info[TD][s] # NoneV}
         /\ epc' = "entries" /\ UNCHANGED <<vars, ecur>>
EPick == /\ epc = "entries" /\ ecur[1] = "-"
         /\ IF etodo = {} THEN epc' = "olist" /\ UNCHANGED <<etodo, ecur>>
            ELSE \E s \in etodo :
                   /\ etodo' = etodo \ {s} /\ epc' = epc
                   \* with DAYS the info is read now: only a pre-existing (old) one dooms its entry
                   /\ ecur' = IF WithDays /\ info[TD][s] # PreV THEN <<"-", "-">> ELSE <<s, "pay">>
         /\ UNCHANGED <<vars, einfos>>
\* remove_file_if_exists(files/s) then remove info/s
ERmPay == /\ epc = "entries" /\ ecur[2] = "pay"
          /\ pay' = [pay EXCEPT ![TD][ecur[1]] = NoneV]
          /\ ecur' = <<ecur[1], "info">>
          /\ UNCHANGED <<parts, info, src, pc, cand, idx, slot, part, res, nfaults, clobbered, strayleft, epc, etodo, einfos>>
ERmInfo == /\ epc = "entries" /\ ecur[2] = "info"
           /\ info' = [info EXCEPT ![TD][ecur[1]] = NoneV]
           /\ ecur' = <<"-", "-">>
           /\ UNCHANGED <<parts, pay, src, pc, cand, idx, slot, part, res, nfaults, clobbered, strayleft, epc, etodo, einfos>>
\* orphan sweep: snapshot files/, then for each: if its info does not exist, remove it
EOList == /\ epc = "olist"
          /\ etodo' = {s \in AllSlots : pay[TD][s] # NoneV}
          /\ epc' = "orphans" /\ UNCHANGED <<vars, ecur, einfos>>
EOSweep == /\ epc = "orphans"
           /\ IF etodo = {} THEN epc' = "done" /\ UNCHANGED <<vars, etodo, ecur, einfos>>
              ELSE \E s \in etodo :
                     /\ etodo' = etodo \ {s} /\ epc' = epc /\ ecur' = ecur /\ einfos' = einfos
                     /\ IF (EMutant = "none" /\ info[TD][s] = NoneV) \/ (EMutant = "snapshot" /\ s \notin einfos)
                        THEN pay' = [pay EXCEPT ![TD][s] = NoneV]          \* "orphan": removed
                        ELSE pay' = pay
                     /\ UNCHANGED <<parts, info, src, pc, cand, idx, slot, part, res, nfaults, clobbered, strayleft>>

PutStep == (\E p \in Procs : Step(p)) /\ UNCHANGED <<epc, etodo, ecur, einfos>>
ENext == PutStep \/ EList \/ EPick \/ ERmPay \/ ERmInfo \/ EOList \/ EOSweep
ESpec == EInit /\ [][ENext]_pevars

\* what a user relies on: an entry whose trash-put succeeded (exit 0) and whose payload is still in the trash has its
\* info; an entry that is gone from its place is either in the trash with its info or was purged as a whole pair
PutDoneWhole == \A p \in Procs : (pc[p] = "done" /\ res[p] = "ok") =>
                   \A s \in AllSlots : (IsOwned(pay[TD][s]) /\ pay[TD][s].owner = p) => IsOwned(info[TD][s]) /\ info[TD][s].owner = p
\* trash-empty DAYS running next to trash-put: what is being trashed is not old, so it is kept, whole - every put succeeds
\* and ends with its complete pair (C10: "entries that are kept are left byte-for-byte intact"), at every instant the
\* payload of a put that is under way or done has its info
FreshKept == \A p \in Procs : pc[p] = "done" =>
                /\ res[p] = "ok"
                /\ \E s \in AllSlots : /\ IsOwned(pay[TD][s]) /\ pay[TD][s].owner = p /\ pay[TD][s].st = "whole"
                                       /\ IsOwned(info[TD][s]) /\ info[TD][s].owner = p /\ info[TD][s].st = "full"
FreshInfoFirst == \A s \in AllSlots : IsOwned(pay[TD][s]) => IsOwned(info[TD][s]) /\ info[TD][s].owner = pay[TD][s].owner
NoSilentLoss == \A p \in Procs : src[p] = "gone" =>
                   \/ \E s \in AllSlots : IsOwned(pay[TD][s]) /\ pay[TD][s].owner = p
                   \/ epc # "list"          \* purged by the emptier (after the put finished or - the race - while it was under way)
=============================================================================

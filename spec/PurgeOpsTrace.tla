----------------------------- MODULE PurgeOpsTrace -----------------------------
(***************************************************************************)
(* Design conformance of trash-empty / trash-rm / trash-restore: the       *)
(* sequence of on-disk states observed after EVERY operation of the real   *)
(* command (lock-step mode; states projected to info / pay / dest) must be *)
(* a behaviour of PurgeOps.tla up to stuttering: every observed state      *)
(* change must be explained by one action of the design (payload step,     *)
(* info removal, move step, orphan sweep), taken in an order the design    *)
(* allows (payload before info; copy before delete).  Pick is an internal  *)
(* step.  The invariants of PurgeOps are INVARIANTs of the validation run. *)
(***************************************************************************)
EXTENDS PurgeOps, Sequences, Json, IOUtils

Traces == JsonDeserialize(IOEnv.TRACE_FILE)
VARIABLES tid, l
tvars == <<vars, tid, l>>
Tr == Traces[tid]

InitT == Init /\ tid \in 1 .. Len(Traces) /\ l = 1

\* the state AFTER the step equals the observation o
MatchesNext(o) ==
  /\ \A e \in Entries : info'[e] = o.info[e] /\ pay'[e] = o.pay[e] /\ dest'[e] = o.dest[e]
  /\ \A x \in Orphans : pay'[x] = o.pay[x]

Silent == Pick /\ UNCHANGED <<tid, l>>
Observed ==
  /\ l <= Len(Tr) /\ l' = l + 1 /\ tid' = tid
  /\ \/ RmPay \/ RmInfo \/ Move \/ SweepOrphans
     \/ UNCHANGED vars                                   \* an operation that does not change the projected state
  /\ MatchesNext(Tr[l])
NextT == Silent \/ Observed

Accepted == l = Len(Tr) + 1
ReportAccept == ~Accepted \/ PrintT(<<"##ACCEPT", tid>>)
=============================================================================

-------------------------------- MODULE Dates --------------------------------
(***************************************************************************)
(* Layer F: calendar arithmetic for the DAYS threshold of trash-empty.     *)
(* Expired(date, now, days)  <=>  date < now - days days, at one-second    *)
(* resolution, strict.  Also the lemma that ties the clock ticks of        *)
(* Trash.tla to calendar time: tick k = day (k div K) second (k mod K).    *)
(***************************************************************************)
EXTENDS Naturals, Integers

\* days since 0000-03-01 (proleptic Gregorian), Howard Hinnant's days_from_civil
DayNumber(y0, m, d) ==
  LET y   == IF m <= 2 THEN y0 - 1 ELSE y0
      era == y \div 400
      yoe == y - era * 400
      mp  == (m + 9) % 12
      doy == (153 * mp + 2) \div 5 + d - 1
      doe == yoe * 365 + yoe \div 4 - yoe \div 100 + doy
  IN era * 146097 + doe

SecOfDay(t) == t[4] * 3600 + t[5] * 60 + t[6]
Day(t) == DayNumber(t[1], t[2], t[3])

\* t1 + n days < t2
Expired(date, now, days) ==
  \/ Day(date) + days < Day(now)
  \/ (Day(date) + days = Day(now) /\ SecOfDay(date) < SecOfDay(now))

\* the abstract rule of Trash.tla on ticks, and the embedding of ticks into (day, second)
TickExpired(a, b, days, K) == a + days * K < b
EmbExpired(a, b, days, K) ==
  \/ (a \div K) + days < (b \div K)
  \/ ((a \div K) + days = (b \div K) /\ (a % K) < (b % K))
EmbeddingLemma(K, N, D) == \A a \in 0 .. N, b \in 0 .. N, days \in 0 .. D :
                              TickExpired(a, b, days, K) <=> EmbExpired(a, b, days, K)
=============================================================================

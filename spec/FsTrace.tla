-------------------------------- MODULE FsTrace --------------------------------
(***************************************************************************)
(* Program-free judgement of observed file-system states of trash-put.     *)
(* Each element of the trace file is one state of the trash directories    *)
(* and sources, projected (by the harness) into the vocabulary of          *)
(* PutOps.tla, observed on the real processes: after every operation of a  *)
(* lock-step schedule, after a kill before operation k, after a run with   *)
(* an injected error.  TLC evaluates every safety invariant of PutOps on   *)
(* every observed state and prints the verdict per invariant.  Nothing     *)
(* here depends on how trash-put is programmed.                            *)
(***************************************************************************)
EXTENDS PutOps, Json, IOUtils

Obs == JsonDeserialize(IOEnv.TRACE_FILE)
VARIABLES tid, phase

Rec(x) == [st |-> x.st, owner |-> x.owner]
Lookup(m, t, s) == IF t \in DOMAIN m /\ s \in DOMAIN m[t] THEN Rec(m[t][s]) ELSE NoneV
SetOf(q) == {q[i] : i \in DOMAIN q}

InitF ==
  /\ tid \in 1 .. Len(Obs) /\ phase = 0
  /\ LET o == Obs[tid] IN
     /\ parts = [t \in TDs |-> IF t \in DOMAIN o.state.parts THEN SetOf(o.state.parts[t]) ELSE {}]
     /\ info = [t \in TDs |-> [s \in AllSlots |-> Lookup(o.state.info, t, s)]]
     /\ pay = [t \in TDs |-> [s \in AllSlots |-> Lookup(o.state.pay, t, s)]]
     /\ src = [p \in Procs |-> IF p \in DOMAIN o.state.src THEN o.state.src[p] ELSE "present"]
     /\ pc = [p \in Procs |-> IF p \in DOMAIN o.done /\ o.done[p] THEN "done" ELSE IF p \in DOMAIN o.state.src THEN "run" ELSE "idle"]
     /\ res = [p \in Procs |-> IF p \in DOMAIN o.res THEN o.res[p] ELSE "run"]
     /\ clobbered = o.state.clobbered
     /\ strayleft = o.strayleft
  /\ cand = [p \in Procs |-> 1] /\ idx = [p \in Procs |-> 1] /\ slot = [p \in Procs |-> "none"] /\ part = [p \in Procs |-> "dir"]
  /\ nfaults = 0

\* processes that do not take part in a scenario are not constrained
Active == {p \in Procs : pc[p] # "idle"}
NothingLostA == \A p \in Active : src[p] = "present" \/ \E ts \in PaySlots(p) : pay[ts[1]][ts[2]].st = "whole"
DoneOKA == \A p \in Active : DoneOK(p)
AllSucceedA == Obs[tid].faulty \/ \A p \in Active : AtRest(p) => res[p] = "ok"
NoGarbage == \A t \in TDs, s \in AllSlots : info[t][s].st # "garbage"

NextF ==
  /\ phase = 0 /\ phase' = 1 /\ tid' = tid
  /\ UNCHANGED vars
  /\ PrintT(<<"##INV", tid, NoOverwrite, UniqueOwnership, InfoBeforePayload, NothingLostA, DoneOKA, AllSucceedA, NoGarbage>>)
=============================================================================

------------------------------- MODULE PurgeOps -------------------------------
(***************************************************************************)
(* Layer O: trash-restore, trash-empty and trash-rm as sequences of atomic *)
(* file-system operations on the entries of one trash directory.           *)
(*                                                                         *)
(* An entry e is a pair  files/e + info/e.trashinfo.  The commands remove  *)
(* the payload first and the info last (restore: move the payload out,     *)
(* then remove the info), so that in EVERY reachable state - i.e. whenever *)
(* the process is killed - a payload still under files/ has its info, and  *)
(* an entry being restored is complete in the trash or at its destination. *)
(* Crash + Rerun model the recovery half of C15: running the same purge    *)
(* again completes it.                                                     *)
(***************************************************************************)
EXTENDS Naturals, FiniteSets, TLC

CONSTANTS Entries,     \* entries with a .trashinfo
          Trees,       \* entries whose payload is a directory tree (removed / copied in several steps)
          Orphans,     \* payloads without info (purged by trash-empty)
          Cmd,         \* "restore" | "empty" | "rm"
          Selected,    \* the entries the command works on (restore: chosen indices; rm: matches; empty: doomed)
          CrossVol,    \* entries whose restore crosses volumes (copy + delete instead of rename)
          Occupied,    \* entries at whose original location another non-directory lives (trash-restore --overwrite replaces it)
          Mutant       \* "none" | "infofirst"

VARIABLES info,    \* [Entries -> "present" | "gone"]
          pay,     \* [Entries \cup Orphans -> "whole" | "partial" | "gone"]
          dest,    \* [Entries -> "absent" | "other" | "partial" | "whole"]       (restore destinations; "other": the occupant)
          todo,    \* entries still to be handled by the running command
          cur, pc, \* entry in hand and program counter
          crashes  \* number of crashes so far
vars == <<info, pay, dest, todo, cur, pc, crashes>>

NoE == "-"

Init ==
  /\ info = [e \in Entries |-> "present"]
  /\ pay = [e \in Entries \cup Orphans |-> "whole"]
  /\ dest = [e \in Entries |-> IF e \in Occupied THEN "other" ELSE "absent"]
  /\ todo = Selected /\ cur = NoE /\ pc = "pick" /\ crashes = 0

\* what the command lists when it (re)starts: entries with an info file that are selected; for trash-empty also orphans
Listing == {e \in Selected : info[e] = "present"}

Pick ==
  /\ pc = "pick"
  /\ IF todo = {}
     THEN pc' = (IF Cmd = "empty" THEN "orphans" ELSE "done") /\ UNCHANGED <<cur, todo>>
     ELSE \E e \in todo : cur' = e /\ todo' = todo \ {e}
                          /\ pc' = (IF Mutant = "infofirst" THEN "rminfo" ELSE IF Cmd = "restore" THEN "move" ELSE "rmpay")
  /\ UNCHANGED <<info, pay, dest, crashes>>

\* remove the payload: one step for a file / link, two for a tree (something is gone, then all is gone)
RmPay ==
  /\ pc = "rmpay"
  /\ IF pay[cur] = "gone" THEN pc' = (IF Mutant = "infofirst" THEN "pick" ELSE "rminfo") /\ pay' = pay
     ELSE IF cur \in Trees /\ pay[cur] = "whole" THEN pay' = [pay EXCEPT ![cur] = "partial"] /\ pc' = pc
     ELSE pay' = [pay EXCEPT ![cur] = "gone"] /\ pc' = (IF Mutant = "infofirst" THEN "pick" ELSE "rminfo")
  /\ UNCHANGED <<info, dest, todo, cur, crashes>>

RmInfo ==
  /\ pc = "rminfo"
  /\ info' = [info EXCEPT ![cur] = "gone"]
  /\ pc' = (IF Mutant = "infofirst" THEN (IF Cmd = "restore" THEN "move" ELSE "rmpay") ELSE "pick")
  /\ UNCHANGED <<pay, dest, todo, cur, crashes>>

\* restore: rename (atomic) on the same volume; copy (partial, whole) then delete the payload across volumes
Move ==
  /\ pc = "move"
  /\ IF pay[cur] = "gone" /\ dest[cur] # "whole"
     THEN pc' = "pick" /\ UNCHANGED <<pay, dest>>                   \* nothing to move (info without payload): error, info kept
     ELSE IF dest[cur] = "other"
          THEN dest' = [dest EXCEPT ![cur] = "absent"] /\ UNCHANGED <<pay, pc>>   \* --overwrite: the occupant is removed first; the payload is still whole in the trash
     ELSE IF cur \notin CrossVol
          THEN /\ pay' = [pay EXCEPT ![cur] = "gone"] /\ dest' = [dest EXCEPT ![cur] = "whole"]
               /\ pc' = (IF Mutant = "infofirst" THEN "pick" ELSE "rminfo")
          ELSE IF dest[cur] = "absent" THEN dest' = [dest EXCEPT ![cur] = "partial"] /\ UNCHANGED <<pay, pc>>
          ELSE IF dest[cur] = "partial" THEN dest' = [dest EXCEPT ![cur] = "whole"] /\ UNCHANGED <<pay, pc>>
          ELSE IF pay[cur] = "whole" /\ cur \in Trees THEN pay' = [pay EXCEPT ![cur] = "partial"] /\ UNCHANGED <<dest, pc>>
          ELSE /\ pay' = [pay EXCEPT ![cur] = "gone"] /\ dest' = dest
               /\ pc' = (IF Mutant = "infofirst" THEN "pick" ELSE "rminfo")
  /\ UNCHANGED <<info, todo, cur, crashes>>

\* trash-empty: payloads without info are removed after the entries
SweepOrphans ==
  /\ pc = "orphans"
  /\ IF \E o \in Orphans : pay[o] # "gone"
     THEN \E o \in Orphans : pay[o] # "gone" /\ pay' = [pay EXCEPT ![o] = IF o \in Trees /\ @ = "whole" THEN "partial" ELSE "gone"] /\ pc' = pc
     ELSE pc' = "done" /\ pay' = pay
  /\ UNCHANGED <<info, dest, todo, cur, crashes>>

\* the process is killed at any instant; the user runs the same command again (trash-empty / trash-rm), which lists afresh
CrashAndRerun ==
  /\ pc # "done" /\ crashes < 2 /\ Cmd # "restore"
  /\ crashes' = crashes + 1
  /\ todo' = Listing /\ cur' = NoE /\ pc' = "pick"
  /\ UNCHANGED <<info, pay, dest>>

Next == Pick \/ RmPay \/ RmInfo \/ Move \/ SweepOrphans \/ CrashAndRerun
Spec == Init /\ [][Next]_vars /\ WF_vars(Pick \/ RmPay \/ RmInfo \/ Move \/ SweepOrphans)

\* C15: the info file is the last thing removed: a payload still under files/ (even partly) has its .trashinfo
InfoLast == \A e \in Entries : pay[e] # "gone" => info[e] = "present"
\* C15: an entry being restored is complete in the trash or complete at its destination, never lost
RestoreNeverLoses == \A e \in Entries : Cmd = "restore" => (pay[e] = "whole" \/ dest[e] = "whole")
\* entries the command does not work on are untouched
FrameOK == \A e \in Entries \ Selected : info[e] = "present" /\ pay[e] = "whole" /\ dest[e] = (IF e \in Occupied THEN "other" ELSE "absent")
\* C15: (re-)running the purge completes it: everything selected is gone, pairs whole; for restore: restored and out of the trash
DoneOK == pc = "done" =>
            /\ \A e \in Selected : info[e] = "gone" /\ pay[e] = "gone" /\ (Cmd = "restore" => dest[e] = "whole")
            /\ (Cmd = "empty" => \A o \in Orphans : pay[o] = "gone")
RerunCompletes == <>(pc = "done")
=============================================================================

------------------------------- MODULE PurgeTrace -------------------------------
(* Observed on-disk states of trash-restore / trash-empty / trash-rm (after a kill before operation k, after the
   re-run) judged with the invariants of PurgeOps.tla; one state per observation, verdict printed per invariant. *)
EXTENDS PurgeOps, Sequences, Json, IOUtils

Obs == JsonDeserialize(IOEnv.TRACE_FILE)
VARIABLES tid, phase

InitP ==
  /\ tid \in 1 .. Len(Obs) /\ phase = 0
  /\ LET o == Obs[tid] IN
     /\ info = [e \in Entries |-> IF e \in DOMAIN o.info THEN o.info[e] ELSE "present"]
     /\ pay = [e \in Entries \cup Orphans |-> IF e \in DOMAIN o.pay THEN o.pay[e] ELSE "whole"]
     /\ dest = [e \in Entries |-> IF e \in DOMAIN o.dest THEN o.dest[e] ELSE "absent"]
     /\ pc = IF o.done THEN "done" ELSE "run"
  /\ todo = {} /\ cur = NoE /\ crashes = 0

\* the selection and the command vary per observation: the invariants are instantiated with the observation's own
SelOf(o) == {o.selected[i] : i \in DOMAIN o.selected}
InfoLastO == \A e \in Entries : pay[e] # "gone" => info[e] = "present"
RestoreNeverLosesO == LET o == Obs[tid] IN o.cmd = "restore" => \A e \in Entries : pay[e] = "whole" \/ dest[e] = "whole"
OccOf(o) == {o.occupied[i] : i \in DOMAIN o.occupied}
FrameO == LET o == Obs[tid] IN \A e \in Entries \ SelOf(o) : info[e] = "present" /\ pay[e] = "whole"
                                                               /\ dest[e] = (IF e \in OccOf(o) THEN "other" ELSE "absent")
DoneO == LET o == Obs[tid] IN o.done =>
           /\ \A e \in SelOf(o) : info[e] = "gone" /\ pay[e] = "gone" /\ (o.cmd = "restore" => dest[e] = "whole")
           /\ (o.cmd = "empty" => \A x \in Orphans : pay[x] = "gone")
\* whatever is left in the trash after the recovery purge: nothing
PurgedO == LET o == Obs[tid] IN o.purged => \A e \in Entries \cup Orphans : pay[e] = "gone" /\ (e \in Entries => info[e] = "gone")

NextP ==
  /\ phase = 0 /\ phase' = 1 /\ tid' = tid /\ UNCHANGED vars
  /\ PrintT(<<"##INV", tid, InfoLastO, RestoreNeverLosesO, FrameO, DoneO, PurgedO>>)
=============================================================================

SPECIFICATION Spec
CONSTANTS MaxObj = 3 MaxClock = 2 DayTicks = 1 MaxDepth = 2
CONSTRAINT Bound
VIEW View
INVARIANT TypeOK
INVARIANT Conservation
INVARIANT ListIsBag
INVARIANT JunkIsolation
INVARIANT ArgIndependence
PROPERTY InsecureFrozen
PROPERTY PutVolumeOK
PROPERTY PurgeFrame
PROPERTY NoConsentNoChange
CHECK_DEADLOCK FALSE

----------------------------- MODULE Sim_Trash -----------------------------
(***************************************************************************)
(* Behaviour generation: TLC simulates histories of the five commands and  *)
(* environment actions from seeded initial states; the history variable    *)
(* records every step (label, state after it, what trash-list must print)  *)
(* and is printed as JSON when the depth bound is reached.  Every printed   *)
(* history is a behaviour of Trash.tla; the harness replays it with real    *)
(* commands only.                                                           *)
(***************************************************************************)
EXTENDS Trash, Json

CONSTANTS Depth

VARIABLES hist, done, init0
hvars == <<vars, hist, done, init0>>

StdKind == [o \in Objs |-> CASE o % 4 = 1 -> "file" [] o % 4 = 2 -> "dir" [] o % 4 = 3 -> "link" [] OTHER -> "dlink"]
TopOn(v, x) == [r \in Regions |-> IF r = v THEN x ELSE "absent"]

SimCfgs ==
  {c \in [mounted : {{"R", "V1"}, {"R", "H", "V1"}, {"R", "V1", "V2"}},
          top     : {TopOn("V1", x) : x \in {"absent", "sticky", "nonsticky"}},
          altfile : {{}},
          xdg     : {"set", "unset"},
          home    : {"set"}, hlink : {"none"},
          kind    : {StdKind}] : TRUE}

SimLocs == {[r |-> r, d |-> d, n |-> n] : r \in {"R", "V1", "V2"}, d \in {"top", "d", "de"}, n \in Names}

InitSim ==
  /\ cfg \in SimCfgs
  /\ dirs = {[r |-> r, d |-> "top"] : r \in Regions} \cup {[r |-> r, d |-> d] : r \in {"R", "V1", "V2"}, d \in {"d", "de"}}
  /\ live \in {{[r |-> "R", d |-> "d", n |-> "a", o |-> 1], [r |-> "V1", d |-> "d", n |-> "a", o |-> 2],
                [r |-> "V1", d |-> "de", n |-> "b", o |-> 3], [r |-> "R", d |-> "top", n |-> "b", o |-> 4]},
               {[r |-> "R", d |-> "top", n |-> "a", o |-> 1], [r |-> "V1", d |-> "top", n |-> "b", o |-> 2],
                [r |-> "R", d |-> "d", n |-> "b", o |-> 4]}}
  \* some histories start with entries that another session / implementation left in the volume trash directories
  \* (both $topdir/.Trash/$uid and $topdir/.Trash-$uid may hold entries at the same time)
  \* seeded = 2: infos WITHOUT payload (what a killed restore leaves) under the very names the live entries will want:
  \* trash-list shows them, and a later put of the same name must neither use nor remove them
  /\ \E seeded \in 0 .. 2 :
       /\ (seeded = 2 <=> Cardinality(live) = 3)     \* the stray histories use the smaller live set (restore enumerates listings)
       /\ items = IF seeded # 1 THEN {}
                  ELSE {[t |-> "t2:V1", o |-> 8, r |-> "V1", d |-> "top", n |-> "a", date |-> 0]}
                       \cup (IF cfg.top["V1"] = "sticky" THEN {[t |-> "t1:V1", o |-> 9, r |-> "V1", d |-> "top", n |-> "b", date |-> 0]} ELSE {})
                       \* ... and another user's entry beside them: nobody's business unless --all-users is given
                       \cup {[t |-> "o2:V1", o |-> 7, r |-> "V1", d |-> "d", n |-> "a", date |-> 0]}
       /\ strays = IF seeded # 2 THEN {}
                   ELSE {[t |-> "home", id |-> 1, r |-> "R", d |-> "top", n |-> "a", date |-> 0],
                         [t |-> "t2:V1", id |-> 2, r |-> "V1", d |-> "top", n |-> "b", date |-> 0]}
       /\ tex = {i.t : i \in items} \cup {k.t : k \in strays}
  /\ orph = {} /\ junk = {}
  /\ clock = 0 /\ purged = {} /\ out = [cmd |-> "init"]
  /\ hist = << >> /\ done = FALSE
  /\ init0 = [live |-> live, dirs |-> dirs, tex |-> tex, items |-> items, orph |-> {}, strays |-> strays, junk |-> {}, clock |-> 0, purged |-> {}]

LiveArgs == {[class |-> "entry", r |-> e.r, d |-> e.d, n |-> e.n] : e \in live}
DefOpts == [force |-> FALSE, inter |-> "off", td |-> "none", hf |-> FALSE, hfenv |-> FALSE]
Froms == [k : {"root"}] \cup [k : {"dir"}, r : {"R", "V1"}, d : {"top", "d"}]

Pick(S) == IF S = {} THEN {} ELSE {RandomElement(S)}
SimStep ==
  \/ \E a \in Pick(LiveArgs) : Put(<<a>>, DefOpts)
  \/ \E a \in Pick(LiveArgs), b \in Pick(LiveArgs) : a # b /\ Put(<<a, b>>, DefOpts)
  \/ \E a \in Pick(LiveArgs) : Put(<<a, [class |-> "entry", r |-> "V1", d |-> "top", n |-> "b"]>>, [DefOpts EXCEPT !.force = TRUE])
  \* the arguments of restore are drawn at random (RandomElement), so that a simulation step does not have to
  \* enumerate the whole argument space only to pick one successor
  \/ \E f \in {RandomElement(Froms)}, sort \in {RandomElement({"date", "path", "none"})}, ow \in {RandomElement(BOOLEAN)},
        reply \in {RandomElement({x \in ReplySet(3) : x.k \in {"idx", "empty"}})} :
        Restore(f, "none", sort, reply, ow)
  \/ \E f \in Pick(Froms), sort \in Pick({"date", "path", "none"}) :
        LET n == Cardinality(Offerable(cfg, St, f, "none")) IN
        \E reply \in Pick({[k |-> "idx", idx |-> <<i>>] : i \in 0 .. n - 1}
                          \cup {[k |-> "idx", idx |-> <<i, j>>] : i \in 0 .. n - 1, j \in 0 .. n - 1}) :
          Restore(f, "none", sort, reply, FALSE)
  \/ \E days \in Pick({-1, 0, 1, 2}) : Empty([days |-> days, dry |-> FALSE, consent |-> "auto", td |-> "none"])
  \/ \E days \in Pick({-1, 1}) : cfg.xdg # "set" /\ Empty([days |-> days, dry |-> FALSE, consent |-> "auto", td |-> "all"])
  \/ \E p \in [k : {"name"}, n : Names] \cup [k : {"path"}, r : {"R", "V1"}, d : {"d"}, n : {"a"}] : Rm(p)
  \/ Tick
  \/ \E l \in Pick(SimLocs), o \in Objs : Create(l.r, l.d, l.n, o)
  \/ \E l \in Pick({[r |-> i.r, d |-> i.d, n |-> i.n] : i \in items}), o \in Objs : Create(l.r, l.d, l.n, o)   \* re-create where something was trashed
  \/ \E r \in {"R", "V1"}, d \in {"d", "de"} : RmDir(r, d)

\* steps that change nothing teach little: prefer progress (still behaviours of the specification)
NextSim ==
  /\ Len(hist) < Depth
  /\ ~done /\ done' = FALSE /\ init0' = init0
  /\ SimStep
  /\ hist' = Append(hist, [lab |-> out', post |-> St',
                           lines |-> ListApply(cfg, St', "none").out.lines,
                           diag  |-> ListApply(cfg, St', "none").out.diag])
  /\ (out'.cmd \in {"restore", "empty", "rm", "rmdir"} => svars' # svars)
  \* two entries with the same path and second are indistinguishable in a listing: which of them an index denotes is
  \* open, so such restores are not replayed (they are still judged, as observed steps, by TrashTrace)
  /\ (out'.cmd = "restore" => ~out'.undef /\ ~out'.sundef)      \* cases the properties leave open are not replayed
  /\ (out'.cmd = "restore" =>
        \A x, y \in Offerable(cfg, St, out'.from, "none") :
           (x.date = y.date /\ x.r = y.r /\ x.d = y.d /\ x.n = y.n) => x = y)

\* In simulation mode TLC evaluates invariants on every successor, chosen or not.  The last step of a
\* history is therefore a deterministic Finish step, so that each simulated history is printed once.
Finish == /\ Len(hist) = Depth /\ ~done /\ done' = TRUE /\ UNCHANGED <<vars, hist, init0>>
NextSimF == NextSim \/ Finish
AtEnd == ~done \/ PrintT("@@" \o ToJson([cfg |-> cfg, init |-> init0, hist |-> hist]))
=============================================================================

------------------------------ MODULE TrashInfo ------------------------------
(***************************************************************************)
(* Layer F: the .trashinfo file format as pure functions over byte         *)
(* sequences (Seq(0..255)).  FreeDesktop.org Trash specification 1.0:      *)
(*   [Trash Info]                                                          *)
(*   Path=<URL-escaped original location, RFC 2396/3986 percent-encoding>  *)
(*   DeletionDate=YYYY-MM-DDThh:mm:ss                                      *)
(* TLC evaluates these operators on bytes observed from the real commands  *)
(* (FunTrace.tla) and checks the round-trip laws over small alphabets      *)
(* (MC_Fun.tla).                                                           *)
(***************************************************************************)
EXTENDS Naturals, Integers, Sequences, SequencesExt, FiniteSets

NoValue == <<-1>>            \* "no such line" / "no date"

Digit(b)  == b \in 48 .. 57
Upper(b)  == b \in 65 .. 90
Lower(b)  == b \in 97 .. 122
Unreserved(b) == Digit(b) \/ Upper(b) \/ Lower(b) \/ b \in {45, 46, 95, 126}       \* - . _ ~
IsHex(b)  == Digit(b) \/ b \in 65 .. 70 \/ b \in 97 .. 102
HexVal(b) == IF Digit(b) THEN b - 48 ELSE IF b \in 65 .. 70 THEN b - 55 ELSE b - 87
HexChar(n) == IF n < 10 THEN 48 + n ELSE 55 + n                                      \* upper case, as RFC 3986 recommends

\* percent-encoding with only '/' and the unreserved bytes left alone
Escape(p) == FlattenSeq([i \in 1 .. Len(p) |->
                 IF Unreserved(p[i]) \/ p[i] = 47 THEN <<p[i]>>
                 ELSE <<37, HexChar(p[i] \div 16), HexChar(p[i] % 16)>>])

\* percent-decoding, left to right: "%" followed by two hex digits (either case) is that byte; any other byte is itself
RECURSIVE UnescapeFrom(_, _)
UnescapeFrom(t, i) ==
  IF i > Len(t) THEN << >>
  ELSE IF t[i] = 37 /\ i + 2 <= Len(t) /\ IsHex(t[i + 1]) /\ IsHex(t[i + 2])
       THEN <<HexVal(t[i + 1]) * 16 + HexVal(t[i + 2])>> \o UnescapeFrom(t, i + 3)
       ELSE <<t[i]>> \o UnescapeFrom(t, i + 1)
Unescape(t) == UnescapeFrom(t, 1)

\* a value that only uses what an escaper may produce
EscapedOK(t) == \A i \in 1 .. Len(t) :
                   \/ Unreserved(t[i]) \/ t[i] = 47
                   \/ (t[i] = 37 /\ i + 2 <= Len(t) /\ IsHex(t[i + 1]) /\ IsHex(t[i + 2]))
                   \/ (i > 1 /\ t[i - 1] = 37 /\ IsHex(t[i]))
                   \/ (i > 2 /\ t[i - 2] = 37 /\ IsHex(t[i]) /\ IsHex(t[i - 1]))

\* lines (separated by LF; a final LF yields a last empty line)
RECURSIVE LinesFrom(_, _, _)
LinesFrom(c, i, cur) ==
  IF i > Len(c) THEN <<cur>>
  ELSE IF c[i] = 10 THEN <<cur>> \o LinesFrom(c, i + 1, << >>)
  ELSE LinesFrom(c, i + 1, Append(cur, c[i]))
Lines(c) == LinesFrom(c, 1, << >>)

StartsWith(s, p) == Len(p) <= Len(s) /\ SubSeq(s, 1, Len(p)) = p
KeyPath == <<80, 97, 116, 104, 61>>                                                    \* "Path="
KeyDate == <<68, 101, 108, 101, 116, 105, 111, 110, 68, 97, 116, 101, 61>>             \* "DeletionDate="
Header  == <<91, 84, 114, 97, 115, 104, 32, 73, 110, 102, 111, 93>>                    \* "[Trash Info]"

\* the remainder of the first line that starts with key, or NoValue
FirstValue(c, key) ==
  LET ls == Lines(c)
      hits == {i \in 1 .. Len(ls) : StartsWith(ls[i], key)}
  IN IF hits = {} THEN NoValue
     ELSE LET i == CHOOSE x \in hits : \A y \in hits : x <= y
          IN SubSeq(ls[i], Len(key) + 1, Len(ls[i]))

ParsePath(c) == LET v == FirstValue(c, KeyPath) IN IF v = NoValue THEN NoValue ELSE Unescape(v)

Num(s) == IF Len(s) = 2 THEN (s[1] - 48) * 10 + (s[2] - 48)
          ELSE (s[1] - 48) * 1000 + (s[2] - 48) * 100 + (s[3] - 48) * 10 + (s[4] - 48)
Leap(y) == (y % 4 = 0 /\ y % 100 # 0) \/ y % 400 = 0
DaysIn(y, m) == IF m \in {4, 6, 9, 11} THEN 30 ELSE IF m = 2 THEN (IF Leap(y) THEN 29 ELSE 28) ELSE 31

\* exactly YYYY-MM-DDThh:mm:ss with valid fields -> <<Y, M, D, h, m, s>>, else NoValue
ParseDateValue(v) ==
  IF /\ Len(v) = 19
     /\ \A i \in {1, 2, 3, 4, 6, 7, 9, 10, 12, 13, 15, 16, 18, 19} : Digit(v[i])
     /\ v[5] = 45 /\ v[8] = 45 /\ v[11] = 84 /\ v[14] = 58 /\ v[17] = 58
  THEN LET y == Num(SubSeq(v, 1, 4))  mo == Num(SubSeq(v, 6, 7))  d == Num(SubSeq(v, 9, 10))
           h == Num(SubSeq(v, 12, 13)) mi == Num(SubSeq(v, 15, 16)) s == Num(SubSeq(v, 18, 19))
       IN IF y >= 1 /\ mo \in 1 .. 12 /\ d >= 1 /\ d <= DaysIn(y, mo) /\ h <= 23 /\ mi <= 59 /\ s <= 59
          THEN <<y, mo, d, h, mi, s>> ELSE NoValue
  ELSE NoValue
ParseDate(c) == LET v == FirstValue(c, KeyDate) IN IF v = NoValue THEN NoValue ELSE ParseDateValue(v)

Dec2(n) == <<48 + (n \div 10), 48 + (n % 10)>>
Dec4(n) == <<48 + (n \div 1000), 48 + ((n \div 100) % 10), 48 + ((n \div 10) % 10), 48 + (n % 10)>>
FormatDate(d) == Dec4(d[1]) \o <<45>> \o Dec2(d[2]) \o <<45>> \o Dec2(d[3]) \o <<84>> \o Dec2(d[4]) \o <<58>> \o Dec2(d[5]) \o <<58>> \o Dec2(d[6])
FormatInfo(loc, d) == Header \o <<10>> \o KeyPath \o Escape(loc) \o <<10>> \o KeyDate \o FormatDate(d) \o <<10>>

\* the syntax the trash specification takes from the Desktop Entry format: after the group header every line is blank, a
\* comment, or Key=Value; a key appears once (a reader that takes the LAST assignment must read the same as one that takes
\* the first)
KeyValueSyntax(c) ==
  LET ls == Lines(c) IN
  /\ \A i \in 2 .. Len(ls) : ls[i] = << >> \/ ls[i][1] = 35 \/ \E k \in 2 .. Len(ls[i]) : ls[i][k] = 61
  /\ Cardinality({i \in 1 .. Len(ls) : StartsWith(ls[i], KeyPath)}) <= 1
  /\ Cardinality({i \in 1 .. Len(ls) : StartsWith(ls[i], KeyDate)}) <= 1

\* what a .trashinfo must look like when trash-put wrote it for location loc (absolute, or relative to $topdir) at date d
WellFormed(c, loc, d) ==
  LET ls == Lines(c) IN
  /\ Len(ls) >= 3 /\ ls[1] = Header
  /\ KeyValueSyntax(c)
  /\ LET pv == FirstValue(c, KeyPath) IN
       /\ pv # NoValue /\ EscapedOK(pv) /\ Unescape(pv) = loc
  /\ ParseDate(c) = d
  /\ c[Len(c)] = 10

\* a relative location for a $topdir trash directory: no leading slash, no ".." component
RECURSIVE SplitOn(_, _, _, _)
SplitOn(s, sep, i, cur) ==
  IF i > Len(s) THEN <<cur>>
  ELSE IF s[i] = sep THEN <<cur>> \o SplitOn(s, sep, i + 1, << >>)
  ELSE SplitOn(s, sep, i + 1, Append(cur, s[i]))
Components(p) == SplitOn(p, 47, 1, << >>)
RelativeOK(p) == /\ p # << >> /\ p[1] # 47
                 /\ \A i \in 1 .. Len(Components(p)) : Components(p)[i] # <<46, 46>>

\* the meaning every reader must give to a .trashinfo found in a trash directory whose base is `base`
Meaning(c, base) ==
  LET p == ParsePath(c) IN
  [loc  |-> IF p = NoValue THEN NoValue
            ELSE IF p # << >> /\ p[1] = 47 THEN p
            ELSE (IF base = <<47>> THEN <<47>> ELSE base \o <<47>>) \o p,
   date |-> ParseDate(c)]

\* the location a path designates as a directory entry: trailing slashes do not count ("/x/dir/" is the entry "/x/dir")
RECURSIVE StripTrail(_)
StripTrail(p) == IF Len(p) > 1 /\ p[Len(p)] = 47 THEN StripTrail(SubSeq(p, 1, Len(p) - 1)) ELSE p
SameEntry(p, q) == StripTrail(p) = StripTrail(q)
=============================================================================
